import O2P.Basic
import O2P.Model.Routes
/-
  Layer A — one request through oauth2-proxy's pipeline (oauthproxy.go, pkg/middleware/*):

    scope → [redirect-to-https] → ping → ready → mux → session chain (jwt → basic → stored,
    incl. refresh) → handler (Proxy | AuthOnly | UserInfo | SignIn | SignOut | OAuthStart |
    OAuthCallback) → headers chain → upstream.

  Everything outside the repository's own decision logic enters through the `Env` record:
  one field per *call site* whose answer comes from outside (session store, lock, identity
  provider, regex engine, password file, random source, byte-level decoders).  Theorems
  quantify over ALL `Env`s, i.e. over every combination of store faults, identity-provider
  answers and byte-level outcomes.  The byte-level meaning of the fields (what makes
  `load1 = .ok s` true) is the business of the Layer-B models (Signed, CookieJar, Token, …)
  and of the glue in the driver.
-/
namespace O2P

structure Session where
  email : Str := []
  user : Str := []
  preferredUsername : Str := []
  groups : List Str := []
  accessToken : Str := []
  idToken : Str := []
  refreshToken : Str := []
  nonce : Str := []
  createdAt : Option Int := none   -- ns since epoch
  expiresOn : Option Int := none
  deriving DecidableEq, Repr

inductive Endpoint where
  | ping | ready | robots | authOnly | signIn | start | callback | static | userInfo | signOut | proxy
  deriving DecidableEq, Repr

structure Req where
  method : Str
  path : Str                       -- URL.EscapedPath()
  uri : Str := []                  -- URL.RequestURI()
  query : List (Str × Str) := []   -- URL.Query()
  form : List (Str × Str) := []    -- req.Form after ParseForm (query + POST body)
  headers : List (Str × Str) := [] -- canonical name, first value (Header.Get)
  accept : List Str := []          -- all Accept values
  cookies : List (Str × Str) := []
  host : Str := []
  remoteAddr : Str := []
  scheme : Str := []               -- req.URL.Scheme (empty for server requests)
  tls : Bool := false
  userAgent : Str := []
  deriving Repr

def Req.header (r : Req) (name : Str) : Str :=
  match r.headers.find? (fun h => h.1 == name) with
  | some h => h.2
  | none => []

def formGet (f : List (Str × Str)) (k : Str) : Str :=
  match f.find? (fun p => p.1 == k) with
  | some p => p.2
  | none => []

structure Cfg where
  proxyPrefix : Str := "/oauth2".toList
  pingPath : Str := "/ping".toList
  pingUserAgent : Str := []
  readyPath : Str := "/ready".toList
  forceHTTPS : Bool := false
  reverseProxy : Bool := false
  realIPHeader : Str := "X-Real-Ip".toList     -- canonical key of the configured header
  skipPreflight : Bool := false
  routes : List Route := []
  apiRoutes : List Str := []
  hasTrustedIPs : Bool := false
  jwtEnabled : Bool := false
  basicEnabled : Bool := false
  basicGroups : List Str := []
  preferEmailToUser : Bool := false
  forceJSON : Bool := false
  skipProviderButton : Bool := false
  refreshPeriod : Int := 0       -- ns
  cookieExpire : Int := 0        -- ns
  allowedGroups : List Str := []
  pkceMethod : Str := []
  skipNonce : Bool := false
  encodeState : Bool := false
  csrfPerRequest : Bool := false
  cookieName : Str := "_oauth2_proxy".toList
  deriving Repr

inductive LoadRes where
  | noCookie            -- http.ErrNoCookie
  | err                 -- any other error (bad signature, expired stamp, store error, decode error, …)
  | ok (s : Session)
  deriving DecidableEq, Repr

inductive LockRes where
  | obtained
  | held        -- ErrLockNotObtained until the obtain timeout → "timeout obtaining session lock"
  | err
  deriving DecidableEq, Repr

inductive RefreshRes where
  | refreshed (s : Session)   -- provider returned (true, nil); s = session with the new tokens
  | notRefreshed              -- (false, nil): e.g. no refresh token
  | notImplemented            -- ErrNotImplemented: treated as refreshed
  | err
  deriving DecidableEq, Repr

/-- decoded CSRF cookie -/
structure CSRF where
  state : Str
  nonce : Str
  verifier : Str
  deriving DecidableEq, Repr

/-- what the token endpoint + id-token processing produced for a code (see Model/Token for
    how `ok s` arises from a token; here only success/failure matters) -/
inductive RedeemRes where
  | err
  | ok (s : Session)
  deriving DecidableEq, Repr

structure Env where
  rx : Str → Str → Bool
  clean : Str → Str                               -- gorilla/mux cleanPath
  /-- `trustedText fromHeader text`: the client-address text (value of the configured real-IP
      header when `fromHeader`, else RemoteAddr) parses to an address inside a trusted network
      (Model/NetSet + Model/ClientIP) -/
  trustedText : Bool → Str → Bool
  bearerOf : Str → Option Session                 -- JWT loader on the Authorization value (Model/Token)
  basicOf : Str → Option Session                  -- basic-auth loader on the Authorization value
  load1 : LoadRes                                 -- first sessionStore.Load
  lock : LockRes
  load2 : LoadRes                                 -- reload under lock
  refresh : Session → RefreshRes
  saveOK : Bool                                   -- sessionStore.Save returned nil
  /-- `Verifier.Verify(idToken)`: go-oidc signature/issuer/expiry + this repo's audience check
      (Model/Token) -/
  tokenVerifies : Str → Bool
  /-- the `nonce` claim of an ID token: `none` = claim extraction failed, `some []` = absent/empty -/
  nonceClaim : Str → Option Str
  clearOK : Bool                                  -- sessionStore.Clear returned nil
  emailOK : Str → Bool                            -- p.Validator
  /-- appDirector.GetRedirect on the extracted inputs: rd, X-Auth-Request-Redirect, isForwarded,
      proto, host, uri (GetRequest*), req.URL.RequestURI() (Model/Redirect; always valid or "/") -/
  getRedirect : Str → Str → Bool → Str → Str → Str → Str → Str
  redirectErr : Bool := false                     -- GetRedirect failed (ParseForm error)
  isValidRedirect : Str → Bool
  csrfByName : Str → Option CSRF                  -- LoadCSRFCookie(name): validated, decrypted, decoded
  redeem : Str → Str → Str → RedeemRes            -- code, verifier, redirect URI
  enrichOK : Session → Bool                       -- enrichSessionState succeeded (email present)
  freshState : Str
  freshNonce : Str
  freshVerifier : Str
  rngOK : Bool := true
  hash : Str → Str                                -- encryption.HashNonce on bytes
  challenge : Str → Str → Option Str              -- GenerateCodeChallenge method verifier
  ready : Bool                                    -- VerifyConnection succeeded
  htpasswdOK : Str → Str → Bool
  oauthRedirectURIOf : Str → Str → Str            -- request host, request proto ↦ redirect_uri
  loginURL : Str → Str → Str → List (Str × Str) → Str   -- redirectURI state nonce extra ↦ URL
  csrfCookieName : Str → Str                      -- state substring ↦ cookie name
  now : Int

inductive Kind where
  | httpsRedirect | okText | notReady | clean301 | robots | static
  | upstream | accepted | userInfo | emptyUserInfo
  | signInPage | idpRedirect | redirect | jsonErr | textErr | errorPage
  deriving DecidableEq, Repr

inductive CookieOp where
  | setSession (s : Session)     -- session cookie(s) / ticket issued for s
  | clearSession
  | setCSRF (c : CSRF)
  | clearCSRF (name : Str)
  deriving DecidableEq, Repr

structure Resp where
  status : Nat
  kind : Kind
  location : Str := []
  cookies : List CookieOp := []
  /-- `some s?` when the request was handed to the headers chain + upstream; `s?` is the session
      the identity headers are derived from -/
  forwarded : Option (Option Session) := none
  /-- session whose data is disclosed (userinfo body / auth-only response headers) -/
  disclosed : Option Session := none
  /-- the code verifier sent to the token endpoint, when a redemption happened -/
  redeemedWith : Option (Str × Str) := none   -- (code, verifier)
  deriving DecidableEq, Repr

/-! ### request getters (pkg/requests/util) -/

def requestHost (cfg : Cfg) (r : Req) : Str :=
  let h := r.header "X-Forwarded-Host".toList
  if !cfg.reverseProxy || h.isEmpty then r.host else h
def requestProto (cfg : Cfg) (r : Req) : Str :=
  let h := r.header "X-Forwarded-Proto".toList
  if !cfg.reverseProxy || h.isEmpty then r.scheme else h
def requestURI (cfg : Cfg) (r : Req) : Str :=
  let h := r.header "X-Forwarded-Uri".toList
  if !cfg.reverseProxy || h.isEmpty then r.uri else h

/-- text consulted for the client address: the configured real-client-IP header in reverse-proxy
    mode (the parser is configured only there: pkg/validation/options.go), RemoteAddr otherwise -/
def clientAddrText (cfg : Cfg) (r : Req) : Bool × Str :=
  if cfg.reverseProxy then (true, r.header cfg.realIPHeader) else (false, r.remoteAddr)

def Env.trusted (env : Env) (cfg : Cfg) (r : Req) : Bool :=
  let (h, t) := clientAddrText cfg r
  env.trustedText h t

def isForwardedRequest (cfg : Cfg) (r : Req) : Bool := cfg.reverseProxy && r.host != requestHost cfg r

def Env.redirectOf (env : Env) (cfg : Cfg) (r : Req) : Str :=
  env.getRedirect (formGet r.form "rd".toList) (r.header "X-Auth-Request-Redirect".toList)
    (isForwardedRequest cfg r) (requestProto cfg r) (requestHost cfg r) (requestURI cfg r) r.uri

def Env.oauthRedirectURI (env : Env) (cfg : Cfg) (r : Req) : Str :=
  env.oauthRedirectURIOf (requestHost cfg r) (requestProto cfg r)

def Env.bearer (env : Env) (r : Req) : Option Session := env.bearerOf (r.header "Authorization".toList)
def Env.basic (env : Env) (r : Req) : Option Session := env.basicOf (r.header "Authorization".toList)

/-! ### routing -/

def classify (cfg : Cfg) (r : Req) : Endpoint :=
  let p := r.path
  let pre := cfg.proxyPrefix
  if (!cfg.pingPath.isEmpty && p == cfg.pingPath) || (!cfg.pingUserAgent.isEmpty && r.userAgent == cfg.pingUserAgent) then .ping
  else if !cfg.readyPath.isEmpty && p == cfg.readyPath then .ready
  else if p == "/robots.txt".toList then .robots
  else if p == pre ++ "/auth".toList then .authOnly
  else if p == pre ++ "/sign_in".toList then .signIn
  else if p == pre ++ "/start".toList then .start
  else if p == pre ++ "/callback".toList then .callback
  else if hasPrefix (pre ++ "/static/".toList) p then .static
  else if p == pre ++ "/userinfo".toList then .userInfo
  else if p == pre ++ "/sign_out".toList then .signOut
  else .proxy

def behindSessionChain : Endpoint → Bool
  | .authOnly | .userInfo | .signOut | .proxy => true
  | _ => false

/-! ### session chain -/

def Session.ageNs (s : Session) (now : Int) : Int :=
  match s.createdAt with
  | some c => if c = 0 then 0 else (now / 1000000000) * 1000000000 - c   -- Now().Truncate(Second).Sub(CreatedAt)
  | none => 0

def needsRefresh (cfg : Cfg) (now : Int) (s : Session) : Bool :=
  decide (cfg.refreshPeriod > 0) && decide (s.ageNs now > cfg.refreshPeriod)

def Session.isExpired (s : Session) (now : Int) : Bool :=
  match s.expiresOn with
  | some e => decide (e ≠ 0) && decide (e < now)
  | none => false

/-- result of `getValidatedSession`: session or error class, plus the session that was saved -/
structure StoredOut where
  session : Option Session
  isErr : Bool            -- an error other than ErrNoCookie (⇒ store.Clear is called)
  saved : Option Session  -- session passed to store.Save (cookie re-issued) when that succeeded
  refreshCalls : Nat      -- provider refresh calls made
  deriving DecidableEq, Repr

/-- `encryption.HashNonce` incl. its nil case (an empty nonce decodes to nil) -/
def hashNonceM (env : Env) (n : Str) : Str := if n.isEmpty then [] else env.hash n

/-- `OIDCProvider.ValidateSession`: verify the ID token, then (unless skipped) the nonce claim
    must hash-match the session's nonce -/
def Env.validate (env : Env) (cfg : Cfg) (s : Session) : Bool :=
  env.tokenVerifies s.idToken &&
    (cfg.skipNonce || match env.nonceClaim s.idToken with
      | none => false
      | some c => hashNonceM env s.nonce == c)

def validateSessionStep (cfg : Cfg) (env : Env) (s : Session) : Bool :=
  !s.isExpired env.now && env.validate cfg s

/-- `refreshSession`: the session after the provider call and whether `store.Save` is attempted.
    A refresh error is only logged; `ErrNotImplemented` counts as refreshed. -/
def refreshOutcome (env : Env) (s : Session) : Session × Bool :=
  match env.refresh s with
  | .refreshed s' => ({ s' with createdAt := some env.now }, true)
  | .notImplemented => ({ s with createdAt := some env.now }, true)
  | .notRefreshed => (s, false)
  | .err => (s, false)

/-- `refreshSessionIfNeeded` after the lock has been obtained and the session reloaded as `s`.
    A failed Save is only logged; `validateSession` decides (success or fail). -/
def refreshUnderLock (cfg : Cfg) (env : Env) (s : Session) : StoredOut :=
  if !needsRefresh cfg env.now s then { session := some s, isErr := false, saved := none, refreshCalls := 0 }
  else
    let o := refreshOutcome env s
    let ok := validateSessionStep cfg env o.1
    { session := if ok then some o.1 else none, isErr := !ok,
      saved := if o.2 && env.saveOK then some o.1 else none, refreshCalls := 1 }

def getValidatedSession (cfg : Cfg) (env : Env) : StoredOut :=
  match env.load1 with
  | .noCookie => { session := none, isErr := false, saved := none, refreshCalls := 0 }
  | .err => { session := none, isErr := true, saved := none, refreshCalls := 0 }
  | .ok s0 =>
    if !needsRefresh cfg env.now s0 then { session := some s0, isErr := false, saved := none, refreshCalls := 0 }
    else
      match env.lock with
      | .held | .err => { session := none, isErr := true, saved := none, refreshCalls := 0 }
      | .obtained =>
        match env.load2 with
        | .noCookie | .err => { session := none, isErr := true, saved := none, refreshCalls := 0 }
        | .ok s1 => refreshUnderLock cfg env s1

structure ChainOut where
  session : Option Session
  source : Nat              -- 0 none, 1 bearer, 2 basic, 3 stored
  cookies : List CookieOp   -- Set-Cookie side effects of the chain
  refreshCalls : Nat
  deriving DecidableEq, Repr

/-- the stored-session loader's contribution (incl. its Set-Cookie side effects) -/
def storedChainOut (cfg : Cfg) (env : Env) : ChainOut :=
  let o := getValidatedSession cfg env
  { session := o.session, source := if o.session.isSome then 3 else 0,
    cookies := (match o.saved with | some s => [CookieOp.setSession s] | none => []) ++
               (if o.isErr then [CookieOp.clearSession] else []),
    refreshCalls := o.refreshCalls }

def sessionChain (cfg : Cfg) (env : Env) (r : Req) : ChainOut :=
  match (if cfg.jwtEnabled then env.bearer r else none) with
  | some s => { session := some s, source := 1, cookies := [], refreshCalls := 0 }
  | none =>
    match (if cfg.basicEnabled then env.basic r else none) with
    | some s => { session := some s, source := 2, cookies := [], refreshCalls := 0 }
    | none => storedChainOut cfg env

/-! ### authorisation (getAuthenticatedSession) -/

def groupsOK (allowed groups : List Str) : Bool :=
  allowed.isEmpty || groups.any (fun g => allowed.contains g)

inductive AuthRes where
  | ok (s : Option Session)
  | needsLogin
  | denied          -- session cleared
  deriving DecidableEq, Repr

/-- `bypassed` is the verdict of `IsAllowedRequest` (see `bypassDecision`) -/
def getAuthenticatedSession (cfg : Cfg) (env : Env) (bypassed : Bool) (sess : Option Session) : AuthRes :=
  if bypassed then .ok sess
  else match sess with
    | none => .needsLogin
    | some s =>
      let invalidEmail := !s.email.isEmpty && !env.emailOK s.email
      if invalidEmail || !groupsOK cfg.allowedGroups s.groups then .denied else .ok (some s)

/-- path the skip-auth rules see: the PATH component of the request URI (X-Forwarded-Uri's in
    reverse-proxy mode) — `pathOfURI` is supplied by the glue (`url.Parse(uri).Path`). -/
def bypassDecision (cfg : Cfg) (env : Env) (pathOfURI : Str → Str) (r : Req) : Bool :=
  isAllowedRequest env.rx cfg.skipPreflight cfg.routes (cfg.hasTrustedIPs && env.trusted cfg r) r.method
    (pathOfURI (requestURI cfg r))

/-! ### handlers -/

def isAjax (r : Req) : Bool :=
  r.accept.any (fun v => (splitOn ',' v).any (fun m => m.dropWhile (· == ' ') |>.reverse |>.dropWhile (· == ' ') |>.reverse |> (· == "application/json".toList)))

def isAPIPath (cfg : Cfg) (env : Env) (r : Req) : Bool :=
  cfg.apiRoutes.any (fun p => env.rx p (requestURI cfg r))

def errorPage (code : Nat) (cookies : List CookieOp := []) : Resp :=
  { status := code, kind := .errorPage, cookies := cookies }

def stateSubstring (cfg : Cfg) (state : Str) : Str :=
  if cfg.csrfPerRequest then (if 8 ≤ state.length then state.take 8 else []) else []

def encodeStateRaw (nonce redirect : Str) : Str := nonce ++ ':' :: redirect

/-- PKCE: `none` = failure (500), `some none` = PKCE off, `some (some (challenge, method))` -/
def startChallenge (cfg : Cfg) (env : Env) : Option (Option (Str × Str)) :=
  if cfg.pkceMethod.isEmpty then some none
  else if !env.rngOK then none
  else match env.challenge cfg.pkceMethod env.freshVerifier with
    | some c => some (some (c, cfg.pkceMethod))
    | none => none

def startCSRF (cfg : Cfg) (env : Env) : CSRF :=
  { state := env.freshState, nonce := env.freshNonce,
    verifier := if cfg.pkceMethod.isEmpty then [] else env.freshVerifier }

def startExtra (extra : List (Str × Str)) : Option (Str × Str) → List (Str × Str)
  | some (c, m) => extra ++ [("code_challenge".toList, c), ("code_challenge_method".toList, m)]
  | none => extra

def startRedirect (cfg : Cfg) (env : Env) (r : Req) (extra : List (Str × Str)) (pre : List CookieOp)
    (ch : Option (Str × Str)) : Resp :=
  let csrf := startCSRF cfg env
  { status := 302, kind := .idpRedirect,
    location := env.loginURL (env.oauthRedirectURI cfg r) (encodeStateRaw (env.hash csrf.state) (env.redirectOf cfg r))
                  (env.hash csrf.nonce) (startExtra extra ch),
    cookies := pre ++ [.setCSRF csrf] }

def doOAuthStart (cfg : Cfg) (env : Env) (r : Req) (extra : List (Str × Str)) (pre : List CookieOp) : Resp :=
  match startChallenge cfg env with
  | none => errorPage 500 pre
  | some ch =>
    if !env.rngOK then errorPage 500 pre
    else if env.redirectErr then errorPage 400 pre
    else startRedirect cfg env r extra pre ch

def signInPage (env : Env) (code : Nat) (pre : List CookieOp) : Resp :=
  if !env.clearOK then errorPage 500 (pre ++ [.clearSession])
  else if env.redirectErr then { status := code, kind := .errorPage, cookies := pre ++ [.clearSession] }
  else { status := code, kind := .signInPage, cookies := pre ++ [.clearSession] }

def proxyHandler (cfg : Cfg) (env : Env) (r : Req) (bypassed : Bool) (ch : ChainOut) : Resp :=
  match getAuthenticatedSession cfg env bypassed ch.session with
  | .ok s => { status := 200, kind := .upstream, cookies := ch.cookies, forwarded := some s }
  | .needsLogin =>
    if cfg.forceJSON || isAjax r || isAPIPath cfg env r then { status := 401, kind := .jsonErr, cookies := ch.cookies }
    else if cfg.skipProviderButton then doOAuthStart cfg env r [] ch.cookies
    else signInPage env 403 ch.cookies
  | .denied =>
    if cfg.forceJSON then { status := 403, kind := .jsonErr, cookies := ch.cookies ++ [.clearSession] }
    else errorPage 403 (ch.cookies ++ [.clearSession])

/-- auth-only query constraints are a parameter here (`constraintsOK`), modelled in Model/Authz -/
def authOnlyHandler (cfg : Cfg) (env : Env) (bypassed : Bool) (ch : ChainOut)
    (constraintsOK : Session → Bool) : Resp :=
  match getAuthenticatedSession cfg env bypassed ch.session with
  | .needsLogin => { status := 401, kind := .textErr, cookies := ch.cookies }
  | .denied => { status := 401, kind := .textErr, cookies := ch.cookies ++ [.clearSession] }
  | .ok none => { status := 202, kind := .accepted, cookies := ch.cookies }
  | .ok (some s) =>
    if constraintsOK s then { status := 202, kind := .accepted, cookies := ch.cookies, disclosed := some s }
    else { status := 403, kind := .textErr, cookies := ch.cookies }

def userInfoHandler (cfg : Cfg) (env : Env) (bypassed : Bool) (ch : ChainOut) : Resp :=
  match getAuthenticatedSession cfg env bypassed ch.session with
  | .needsLogin => { status := 401, kind := .textErr, cookies := ch.cookies }
  | .denied => { status := 401, kind := .textErr, cookies := ch.cookies ++ [.clearSession] }
  | .ok none => { status := 200, kind := .emptyUserInfo, cookies := ch.cookies }
  | .ok (some s) => { status := 200, kind := .userInfo, cookies := ch.cookies, disclosed := some s }

def signOutHandler (cfg : Cfg) (env : Env) (r : Req) (ch : ChainOut) : Resp :=
  if env.redirectErr then errorPage 500 ch.cookies
  else if !env.clearOK then errorPage 500 (ch.cookies ++ [.clearSession])
  else { status := 302, kind := .redirect, location := env.redirectOf cfg r, cookies := ch.cookies ++ [.clearSession] }

def manualSignIn (cfg : Cfg) (env : Env) (r : Req) : Option Str × Nat :=
  if r.method != "POST".toList || !cfg.basicEnabled then (none, 200)
  else
    let user := formGet r.form "username".toList
    let pw := formGet r.form "password".toList
    if user.isEmpty then (none, 400)
    else if env.htpasswdOK user pw then (some user, 200)
    else (none, 401)

def signInHandler (cfg : Cfg) (env : Env) (r : Req) : Resp :=
  if env.redirectErr then errorPage 500
  else match manualSignIn cfg env r with
    | (some user, _) =>
      let s : Session := { user := user, groups := cfg.basicGroups }
      if env.saveOK then { status := 302, kind := .redirect, location := env.redirectOf cfg r, cookies := [.setSession s] }
      else errorPage 500
    | (none, code) =>
      if cfg.skipProviderButton then doOAuthStart cfg env r r.query []
      else signInPage env code []

def decodeStateRaw (state : Str) : Option (Str × Str) :=
  match splitFirst ':' state with
  | (n, some rd) => some (n, rd)
  | (_, none) => none

/-- `redeemCode`: force CreatedAt / ExpiresOn when the provider did not set them -/
def stampSession (cfg : Cfg) (env : Env) (s0 : Session) : Session :=
  { s0 with createdAt := s0.createdAt.or (some env.now),
            expiresOn := s0.expiresOn.or (some ((s0.createdAt.getD env.now) + cfg.cookieExpire)) }

/-- `csrf.SetSessionNonce` -/
def Session.withNonce (s : Session) (n : Str) : Session := { s with nonce := n }

/-- the session the callback validates and saves -/
def callbackSession (cfg : Cfg) (env : Env) (csrf : CSRF) (s0 : Session) : Session :=
  (stampSession cfg env s0).withNonce csrf.nonce

/-- callback, after the CSRF cookie `csrf` (named `name`) was loaded and the code redeemed into `s0` -/
def callbackFinish (cfg : Cfg) (env : Env) (name nonce appRedirect code : Str) (csrf : CSRF) (s0 : Session) : Resp :=
  let rw := some (code, csrf.verifier)
  if !env.enrichOK (stampSession cfg env s0) then { (errorPage 500) with redeemedWith := rw }
  else
    let ck := [CookieOp.clearCSRF name]
    if hashNonceM env csrf.state != nonce then { (errorPage 403 ck) with redeemedWith := rw }
    else
      let s2 := callbackSession cfg env csrf s0
      if !env.validate cfg s2 then { (errorPage 403 ck) with redeemedWith := rw }
      else if !(env.emailOK s2.email && groupsOK cfg.allowedGroups s2.groups) then { (errorPage 403 ck) with redeemedWith := rw }
      else if !env.saveOK then { (errorPage 500 ck) with redeemedWith := rw }
      else
        { status := 302, kind := .redirect,
          location := if env.isValidRedirect appRedirect then appRedirect else "/".toList,
          cookies := ck ++ [.setSession s2], redeemedWith := rw }

/-- callback, after the state parameter was split into (nonce, appRedirect) -/
def callbackWithState (cfg : Cfg) (env : Env) (r : Req) (nonce appRedirect : Str) : Resp :=
  let name := env.csrfCookieName (stateSubstring cfg nonce)
  match env.csrfByName name with
  | none => errorPage 403
  | some csrf =>
    let code := formGet r.form "code".toList
    if code.isEmpty then errorPage 500
    else match env.redeem code csrf.verifier (env.oauthRedirectURI cfg r) with
      | .err => { (errorPage 500) with redeemedWith := some (code, csrf.verifier) }
      | .ok s0 => callbackFinish cfg env name nonce appRedirect code csrf s0

/-- OAuthCallback. `decodeB64` is the lenient `base64.RawURLEncoding.DecodeString` whose error
    is ignored (the decoded prefix is used) when `encodeState` is on. -/
def callbackHandler (cfg : Cfg) (env : Env) (r : Req) (decodeB64 : Str → Str) : Resp :=
  if !(formGet r.form "error".toList).isEmpty then errorPage 403
  else
    let stateParam := formGet r.form "state".toList
    match decodeStateRaw (if cfg.encodeState then decodeB64 stateParam else stateParam) with
    | none => errorPage 500
    | some (nonce, appRedirect) => callbackWithState cfg env r nonce appRedirect

/-! ### the whole pipeline -/

structure Glue where
  pathOfURI : Str → Str                 -- url.Parse(uri).Path (fallback: cut at '?')
  decodeB64 : Str → Str
  constraintsOK : List (Str × Str) → Session → Bool  -- auth-only query constraints (Model/Authz)

def httpsOK (cfg : Cfg) (r : Req) : Bool :=
  let proto := requestProto cfg r
  lower proto == "https".toList || (r.tls && proto == r.scheme)

def serve (cfg : Cfg) (env : Env) (g : Glue) (r : Req) : Resp :=
  if cfg.forceHTTPS && !httpsOK cfg r then { status := 308, kind := .httpsRedirect }
  else match classify cfg r with
    | .ping => { status := 200, kind := .okText }
    | .ready => if env.ready then { status := 200, kind := .okText } else { status := 500, kind := .notReady }
    | ep =>
      if env.clean r.path != r.path then { status := 301, kind := .clean301, location := env.clean r.path }
      else match ep with
        | .robots => { status := 200, kind := .robots }
        | .static => { status := 200, kind := .static }
        | .signIn => signInHandler cfg env r
        | .start => doOAuthStart cfg env r r.query []
        | .callback => callbackHandler cfg env r g.decodeB64
        | .authOnly =>
          let ch := sessionChain cfg env r
          authOnlyHandler cfg env (bypassDecision cfg env g.pathOfURI r) ch (g.constraintsOK r.query)
        | .userInfo =>
          let ch := sessionChain cfg env r
          userInfoHandler cfg env (bypassDecision cfg env g.pathOfURI r) ch
        | .signOut =>
          let ch := sessionChain cfg env r
          signOutHandler cfg env r ch
        | _ =>
          let ch := sessionChain cfg env r
          proxyHandler cfg env r (bypassDecision cfg env g.pathOfURI r) ch

end O2P
