/-
  O2P.Model.Signed — executable model of oauth2-proxy's signed-cookie format.

  Go source: /repo/pkg/encryption/utils.go  (SecretBytes, Validate, SignedValue,
  cookieSignature, checkSignature, checkHmac) and /repo/pkg/encryption/nonce.go
  (HashNonce, CheckNonce).

  The keyed hash is a PARAMETER `mac : key → message → tag` (the driver instantiates it with
  HMAC-SHA256); likewise `sha` for SHA-256 in the nonce helpers.  Every theorem in
  `O2P/Props/C02.lean`, `O2P/Props/C09.lean` is proved for every `mac`.

  Modelling decisions (all documented deviations are listed here):
  * `hmac.Equal` = equality of the two byte strings (length included).
  * `h.Write` never returns an error, so `cookieSignature` never fails.
  * The MAC input is the UNDELIMITED concatenation `name ++ value ++ timestamp`
    (`h.Write` is called once per argument on the same hash state).  Consequence, proved in
    `O2P/Props/C02.lean` and reproduced on the real Go code: characters can be moved across the
    value/timestamp boundary (and across the name/value boundary when one cookie name is a
    prefix of another) without changing the MAC — see `zero_shift_accepted`,
    `cross_name_accepted`.
  * `strconv.Atoi` = `O2P.atoi` (optional sign, ≥ 1 digit, int64 range).
  * `time.Unix(int64(ts), 0)` stores `ts + 62135596800` in an int64 *with wrap-around*; for
    `ts > 9223371974719179007` the resulting `Time` lies ~292·10⁹ years in the past.
    `effSec` models exactly that; `t.Unix()` (what callers get back) wraps back to `ts`, so
    `validate` returns the parsed `ts` itself.
  * `t.After(u)`/`t.Before(u)` are strict; with `t` on a whole second they are exactly
    `t·10⁹ > u_ns` / `t·10⁹ < u_ns` on integer nanoseconds.
  * Go reads `time.Now()` twice (once per bound); the model takes ONE `nowNs` (wall-clock
    nanoseconds since the Unix epoch).  The two reads differ by well under a microsecond.
  * `expireNs`, `nowNs` are unbounded `Int`; Go's `expiration*-1` and `Time.Add` agree with
    integer arithmetic as long as no int64/Time overflow occurs (|expire| < 2⁶³ ns,
    `now` within ±292 years of 1970… i.e. always, for a real clock).
-/
import O2P.Basic
import O2P.Model.Base64

namespace O2P

/-- `strings.TrimRight(s, "=")` -/
def trimRightEq (s : Str) : Str := (s.reverse.dropWhile (fun c => c = '=')).reverse

/-- `SecretBytes` -/
def secretBytes (secret : Str) : Str :=
  match b64Decode true false (trimRightEq secret) with
  | some b => if b.length = 16 ∨ b.length = 24 ∨ b.length = 32 then b else secret
  | none => secret

/-- `cookieSignature(sha256.New, seed, args...)`: padded URL base64 of the MAC of the
    undelimited concatenation of `args`. -/
def cookieSignature (mac : Str → Str → Str) (seed : Str) (args : List Str) : Str :=
  b64Encode true true (mac seed args.flatten)

/-- `checkHmac(input, expected)` -/
def checkHmac (input expected : Str) : Bool :=
  match b64Decode true true input with
  | some i =>
    match b64Decode true true expected with
    | some e => decide (i = e)
    | none => false
  | none => false

/-- `checkSignature(signature, seed, args...)` -/
def checkSignature (mac : Str → Str → Str) (signature seed : Str) (args : List Str) : Bool :=
  checkHmac signature (cookieSignature mac seed args)

/-- `SignedValue(seed, key=name, value, now)` with `nowSec = now.Unix()` -/
def signedValue (mac : Str → Str → Str) (seed name value : Str) (nowSec : Int) : Str :=
  let e := b64Encode true true value
  let t := intToStr nowSec
  e ++ '|' :: (t ++ '|' :: cookieSignature mac seed [name, e, t])

def unixToInternal : Int := 62135596800

/-- two's-complement int64 wrap-around -/
def wrap64 (i : Int) : Int := (i + 9223372036854775808) % 18446744073709551616 - 9223372036854775808

/-- the Unix second that `time.Unix(ts, 0)` actually denotes in comparisons (`= ts` unless
    `ts + 62135596800` overflows int64) -/
def effSec (ts : Int) : Int := wrap64 (ts + unixToInternal) - unixToInternal

/-- the acceptance window of `Validate` -/
def inWindow (t expireNs nowNs : Int) : Prop :=
  expireNs = 0 ∨
    (effSec t * 1000000000 > nowNs - expireNs ∧ effSec t * 1000000000 < nowNs + 300 * 1000000000)

instance (t e n : Int) : Decidable (inWindow t e n) :=
  inferInstanceAs (Decidable (e = 0 ∨
    (effSec t * 1000000000 > n - e ∧ effSec t * 1000000000 < n + 300 * 1000000000)))

/-- `Validate(cookie{Name: name, Value: cookieValue}, seed, expiration)` evaluated at wall
    clock `nowNs`; `some (value, ts)` ⇔ Go returns `(value, time.Unix(ts,0), true)`. -/
def validate (mac : Str → Str → Str) (name cookieValue seed : Str) (expireNs nowNs : Int) :
    Option (Str × Int) :=
  match splitOn '|' cookieValue with
  | [p0, p1, p2] =>
    if checkSignature mac p2 seed [name, p0, p1] then
      match atoi p1 with
      | some ts =>
        if inWindow ts expireNs nowNs then
          match b64Decode true true p0 with
          | some v => some (v, ts)
          | none => none
        else none
      | none => none
    else none
  | _ => none

/-- `HashNonce`; a nil slice is `none` -/
def hashNonce (sha : Str → Str) : Option Str → Str
  | none => []
  | some n => b64Encode true false (sha n)

/-- `CheckNonce` -/
def checkNonce (sha : Str → Str) (nonce : Option Str) (hashed : Str) : Bool :=
  decide (hashNonce sha nonce = hashed)

/-- `GenerateCodeChallenge(method, codeVerifier)`: `plain` ↦ the verifier itself, `S256` ↦
    unpadded URL base64 of SHA-256(verifier), anything else is an error (`none`). -/
def codeChallenge (sha : Str → Str) (method verifier : Str) : Option Str :=
  if method = "plain".toList then some verifier
  else if method = "S256".toList then some (b64Encode true false (sha verifier))
  else none

end O2P
