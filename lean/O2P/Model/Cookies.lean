import O2P.Basic
/-
  pkg/cookies/cookies.go: MakeCookieFromOptions / GetCookieDomain (after the `fix:` that strips
  the port), and the Redis-store session history (persistence/manager.go, ticket.go) as a
  key-value state machine.
-/
namespace O2P.Ck

structure CookieCfg where
  path : Str := "/".toList
  domains : List Str := []      -- as left by validation: sorted by length, longest first
  secure : Bool := false
  httpOnly : Bool := false
  sameSite : Str := []
  deriving Repr, DecidableEq

structure HCookie where
  name : Str
  value : Str
  path : Str
  domain : Str
  httpOnly : Bool
  secure : Bool
  sameSite : Str
  /-- `none` = attribute absent; `some (-1)` = deletion -/
  maxAge : Option Int
  deriving Repr, DecidableEq

def indexOf? (c : Char) : Str → Option Nat
  | [] => none
  | d :: ds => if d = c then some 0 else (indexOf? c ds).map (· + 1)

/-- `net.SplitHostPort`: `some (host, port)` or `none` on any error -/
def splitHostPortGo (hp : Str) : Option (Str × Str) :=
  match lastIndexOf ':' hp with
  | none => none
  | some i =>
    match hp with
    | '[' :: _ =>
      match indexOf? ']' hp with
      | none => none
      | some e =>
        if e + 1 = hp.length then none
        else if e + 1 = i then
          let host := (hp.take e).drop 1
          let rest := hp.drop (e + 1)
          if (hp.drop 1).contains '[' || rest.contains ']' then none
          else some (host, hp.drop (i + 1))
        else none
    | _ =>
      let host := hp.take i
      if host.contains ':' then none
      else if hp.contains '[' || hp.contains ']' then none
      else some (host, hp.drop (i + 1))

/-- the host NAME the cookie domain is matched against -/
def hostName (host : Str) : Str :=
  match splitHostPortGo host with
  | some (h, _) => h
  | none => host

/-- `GetCookieDomain` -/
def getCookieDomain (domains : List Str) (host : Str) : Option Str :=
  domains.find? (fun d => hasSuffix d (hostName host))

/-- insertion that keeps a list sorted by length, longest first -/
def insertByLen (d : Str) : List Str → List Str
  | [] => [d]
  | x :: xs => if x.length ≤ d.length then d :: x :: xs else x :: insertByLen d xs

/-- the configured domains as validation leaves them (any sort by descending length will do: see
    `domain_unique` in Props/C18) -/
def sortDomains : List Str → List Str
  | [] => []
  | d :: ds => insertByLen d (sortDomains ds)

/-- the domain `MakeCookieFromOptions` uses: first (= longest) matching, else the last (= shortest)
    configured one, else none -/
def domainRule (domains : List Str) (host : Str) : Str :=
  match getCookieDomain domains host with
  | some d => d
  | none => domains.getLast?.getD []

/-- `MakeCookieFromOptions`; `expirationNs` > 0: Max-Age = whole seconds, < 0: deletion, 0: absent -/
def makeCookie (cfg : CookieCfg) (host name value : Str) (expirationNs : Int) : HCookie :=
  { name := name, value := value, path := cfg.path, domain := domainRule cfg.domains host,
    httpOnly := cfg.httpOnly, secure := cfg.secure, sameSite := cfg.sameSite,
    maxAge := if expirationNs > 0 then some (expirationNs / 1000000000)
              else if expirationNs < 0 then some (-1) else none }

/-! ### Redis store history (tickets) -/

abbrev Ticket := Nat
abbrev SessId := Nat

inductive ROp where
  /-- callback / sign-in saves session `s`; the request presented `presented` (a validly signed
      ticket cookie is REUSED by `Manager.Save`), otherwise ticket `fresh` is minted -/
  | login (presented : Option Ticket) (fresh : Ticket) (s : SessId)
  /-- an authenticated request whose refresh re-saves session `s` under the presented ticket
      (only if that ticket currently loads) -/
  | refresh (t : Ticket) (s : SessId)
  /-- a plain request presenting ticket `t` (no effect on the store) -/
  | request (t : Ticket)
  /-- sign-out presenting ticket `t` with a store delete that succeeded -/
  | signOut (t : Ticket)
  deriving Repr, DecidableEq

abbrev KV := List (Ticket × SessId)

def kvGet (kv : KV) (t : Ticket) : Option SessId := (kv.find? (fun p => p.1 == t)).map (·.2)
def kvDel (kv : KV) (t : Ticket) : KV := kv.filter (fun p => p.1 != t)
def kvSet (kv : KV) (t : Ticket) (s : SessId) : KV := (t, s) :: kvDel kv t

def rstep (kv : KV) : ROp → KV
  | .login (some t) _ s => kvSet kv t s
  | .login none f s => kvSet kv f s
  | .refresh t s => if (kvGet kv t).isSome then kvSet kv t s else kv
  | .request _ => kv
  | .signOut t => kvDel kv t

def rrun (kv : KV) (ops : List ROp) : KV := ops.foldl rstep kv

end O2P.Ck
