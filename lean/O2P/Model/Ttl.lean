/-
  O2P.Model.Ttl — the server-side session store WITH LIFETIMES (C09's clause "the server-side entry is stored with
  that lifetime", C10's "what was saved is what the next request loads" under cookie-expire 0).

  `pkg/sessions/redis`: a save is `SET key value EX cookie-expire` (no `EX` when cookie-expire is 0); nothing else ever
  touches a key's lifetime — not a read, not another ticket's save.  Time is the store's own clock (seconds).
  Tied to the code by the `ttlhist` driver op: suite `lifetime-e2e` drives random histories of logins, re-saves under the
  presented ticket, requests, sign-outs and passing time against miniredis and compares what is loadable and the TTL
  Redis reports with this model after every step.
-/
namespace O2P.Ttl

/-- one stored entry: ticket, session, and the time at which the store drops it (`none`: never) -/
structure Entry where
  t : Nat
  s : Nat
  deadline : Option Nat
  deriving Repr, DecidableEq

abbrev Store := List Entry

inductive Op where
  /-- login, or a refresh re-saving under the presented ticket -/
  | save (t s : Nat)
  /-- a request reading the entry -/
  | load (t : Nat)
  /-- sign-out -/
  | del (t : Nat)
  /-- `d` seconds go by -/
  | pass (d : Nat)
  deriving Repr, DecidableEq

structure St where
  now : Nat := 0
  store : Store := []
  deriving Repr

def live (now : Nat) (e : Entry) : Bool :=
  match e.deadline with
  | none => true
  | some dl => decide (now < dl)

def del (st : Store) (t : Nat) : Store := st.filter (fun e => e.t != t)

def find (st : Store) (t : Nat) : Option Entry := st.find? (fun e => e.t == t)

def mkEntry (expire now t s : Nat) : Entry :=
  { t := t, s := s, deadline := if expire = 0 then none else some (now + expire) }

def step (expire : Nat) (st : St) : Op → St
  | .save t s => { st with store := mkEntry expire st.now t s :: del st.store t }
  | .load _ => st
  | .del t => { st with store := del st.store t }
  | .pass d => { st with now := st.now + d }

def runFrom (expire : Nat) (st : St) (ops : List Op) : St := ops.foldl (step expire) st

def run (expire : Nat) (ops : List Op) : St := runFrom expire {} ops

/-- what a load of ticket `t` returns now -/
def get (st : St) (t : Nat) : Option Nat :=
  match find st.store t with
  | some e => if live st.now e then some e.s else none
  | none => none

/-- the remaining lifetime as the store reports it: `none` no (live) entry, `some none` an entry that never expires,
    `some (some n)` n seconds left -/
def ttl (st : St) (t : Nat) : Option (Option Nat) :=
  match find st.store t with
  | some e => if live st.now e then some (e.deadline.map (· - st.now)) else none
  | none => none

/-- seconds that go by in a history -/
def passTotal : List Op → Nat
  | [] => 0
  | .pass d :: ops => d + passTotal ops
  | _ :: ops => passTotal ops

/-- the history neither saves under ticket `t` nor deletes it -/
def Untouched (t : Nat) (ops : List Op) : Prop :=
  ∀ op ∈ ops, (∀ s, op ≠ .save t s) ∧ op ≠ .del t

/-- the history does not save under ticket `t` (it may delete it) -/
def NoSave (t : Nat) (ops : List Op) : Prop := ∀ op ∈ ops, ∀ s, op ≠ .save t s

end O2P.Ttl
