/-
  O2P.Model.ClientIP — executable model of the trusted-IP *decision* of oauth2-proxy:

    /repo/oauthproxy.go            (*OAuthProxy).isTrustedIP
    /repo/pkg/ip/realclientip.go   GetRealClientIPParser, xForwardedForClientIPParser.GetRealClientIP,
                                   GetClientIP, getRemoteIP

  on top of `O2P.Model.NetSet` (`NetSet.lookup` = `NewNetSet` + `AddIPNet`* + `Has`).

  What is modelled here is the *selection logic*: which string of the request is consulted
  (the configured header only, first value, cut at the first comma, `strings.TrimSpace`, one
  host:port strip attempt — or `RemoteAddr` when no parser is configured), and what happens on
  absent / empty / unparseable input.  The two text→address functions of package `net`
  (`net.SplitHostPort`, `net.ParseIP`) are PARAMETERS of the model (`NetText`); the harness
  ships their real verdicts as oracle tables, and all theorems hold for arbitrary such functions.

  Core Lean only.
-/
import O2P.Model.NetSet

namespace O2P

/-- the text→address functions of package `net` the code calls -/
structure NetText where
  /-- `host, _, err := net.SplitHostPort(s)`: `some host` iff `err == nil` -/
  splitHostPort : Str → Option Str
  /-- `net.ParseIP(s)`: `none` is nil; a non-nil result always has 16 bytes -/
  parseIP : Str → Option (BitVec 128)

/-! ## strings.TrimSpace (byte level, Unicode aware) -/

/-- UTF-8 encodings of the code points with `unicode.IsSpace`:
    U+0009–U+000D, U+0020, U+0085, U+00A0, U+1680, U+2000–U+200A, U+2028, U+2029, U+202F,
    U+205F, U+3000.  No sequence is a prefix (or suffix) of another. -/
def spaceSeqs : List (List Nat) :=
  [[9], [10], [11], [12], [13], [32], [0xC2, 0x85], [0xC2, 0xA0], [0xE1, 0x9A, 0x80],
   [0xE2, 0x80, 0x80], [0xE2, 0x80, 0x81], [0xE2, 0x80, 0x82], [0xE2, 0x80, 0x83],
   [0xE2, 0x80, 0x84], [0xE2, 0x80, 0x85], [0xE2, 0x80, 0x86], [0xE2, 0x80, 0x87],
   [0xE2, 0x80, 0x88], [0xE2, 0x80, 0x89], [0xE2, 0x80, 0x8A], [0xE2, 0x80, 0xA8],
   [0xE2, 0x80, 0xA9], [0xE2, 0x80, 0xAF], [0xE2, 0x81, 0x9F], [0xE3, 0x80, 0x80]]

/-- strip one leading element of `seqs` (given as byte values) -/
def stripOne (seqs : List (List Nat)) (s : Str) : Option Str :=
  seqs.findSome? (fun q =>
    let qc := q.map Char.ofNat
    if qc.isPrefixOf s then some (s.drop qc.length) else none)

def trimLeftFuel (seqs : List (List Nat)) : Nat → Str → Str
  | 0, s => s
  | f + 1, s =>
    match stripOne seqs s with
    | some r => trimLeftFuel seqs f r
    | none => s

/-- `strings.TrimLeftFunc(s, unicode.IsSpace)` -/
def trimLeftSpace (s : Str) : Str := trimLeftFuel spaceSeqs s.length s

/-- `strings.TrimRightFunc(s, unicode.IsSpace)`: the same on the reversed bytes -/
def trimRightSpace (s : Str) : Str :=
  (trimLeftFuel (spaceSeqs.map List.reverse) s.length s.reverse).reverse

/-- `strings.TrimSpace(s)` -/
def trimSpace (s : Str) : Str := trimRightSpace (trimLeftSpace s)

/-! ## http.Header, CanonicalHeaderKey -/

/-- an `http.Header` (a `map[string][]string`) as an association list with distinct keys -/
abbrev Headers := List (Str × List Str)

/-- `h.Get(key)` for an already canonical `key`: the first value, or "" -/
def headerGet (h : Headers) (key : Str) : Str :=
  match h.find? (fun kv => kv.1 == key) with
  | some (_, v :: _) => v
  | _ => []

/-- `validHeaderFieldByte` (RFC 7230 `tchar`) -/
def validHeaderFieldByte (c : Char) : Bool :=
  ('0' ≤ c && c ≤ '9') || ('a' ≤ c && c ≤ 'z') || ('A' ≤ c && c ≤ 'Z') ||
  "!#$%&'*+-.^_`|~".toList.contains c

def canonCase : Bool → Str → Str
  | _, [] => []
  | up, c :: cs =>
    let c' := if up then asciiUpper c else asciiLower c
    c' :: canonCase (c' == '-') cs

/-- `http.CanonicalHeaderKey` = `textproto.CanonicalMIMEHeaderKey`: unchanged if some byte is
    not a token character, otherwise first letter and letters after '-' upper-cased, the rest
    lower-cased -/
def canonicalHeaderKey (s : Str) : Str :=
  if s.all validHeaderFieldByte then canonCase true s else s

/-- the five supported real-client-IP headers, canonical spelling -/
def supportedRealIPHeaders : List Str :=
  ["X-Forwarded-For".toList, "X-Real-Ip".toList, "X-Proxyuser-Ip".toList,
   "X-Envoy-External-Address".toList, "Cf-Connecting-Ip".toList]

/-- `GetRealClientIPParser(headerKey)`: `some header` = parser reading that (canonical) header;
    `none` = error (invalid / unsupported) -/
def getRealClientIPParser (headerKey : Str) : Option Str :=
  let k := canonicalHeaderKey headerKey
  if supportedRealIPHeaders.contains k then some k else none

/-! ## GetClientIP -/

/-- Go's `(net.IP, error)` result -/
inductive ClientIP where
  | addr (a : BitVec 128)     -- `(ip, nil)`, ip is a 16-byte slice
  | absent                    -- `(nil, nil)`
  | error                     -- `(nil, err)`
  deriving DecidableEq, Repr

/-- `xForwardedForClientIPParser{header}.GetRealClientIP(h)` -/
def getRealClientIP (T : NetText) (header : Str) (h : Headers) : ClientIP :=
  let realIP := headerGet h header
  if realIP.isEmpty then .absent
  else
    -- `if commaIndex := strings.IndexRune(ipStr, ','); commaIndex != -1 { ipStr = ipStr[:commaIndex] }`
    let ipStr := (splitFirst ',' realIP).1
    let ipStr := trimSpace ipStr
    -- `if ipHost, _, err := net.SplitHostPort(ipStr); err == nil { ipStr = ipHost }`
    let ipStr := match T.splitHostPort ipStr with
      | some host => host
      | none => ipStr
    match T.parseIP ipStr with
    | some a => .addr a
    | none => .error

/-- `getRemoteIP(req)` -/
def getRemoteIP (T : NetText) (remoteAddr : Str) : ClientIP :=
  match T.splitHostPort remoteAddr with
  | none => .error
  | some ipStr =>
    match T.parseIP ipStr with
    | some a => .addr a
    | none => .error

/-- `GetClientIP(p, req)`; `parser = none` is `p == nil` -/
def getClientIP (T : NetText) (parser : Option Str) (h : Headers) (remoteAddr : Str) : ClientIP :=
  match parser with
  | some header => getRealClientIP T header h
  | none => getRemoteIP T remoteAddr

/-- the numeric client address the decision is about (if any) -/
def clientAddr (T : NetText) (parser : Option Str) (h : Headers) (remoteAddr : Str) :
    Option (BitVec 128) :=
  match getClientIP T parser h remoteAddr with
  | .addr a => some a
  | _ => none

/-! ## isTrustedIP -/

/-- `(*OAuthProxy).isTrustedIP(req)`.
    `nets = none` is `p.trustedIPs == nil` — never the case for a proxy built by
    `NewOAuthProxy` (it always calls `ip.NewNetSet()`); for such a hand-made value the Go code
    only returns early when `RemoteAddr != "@"`, and dereferences the nil set otherwise once a
    client address has been obtained (modelled as `.panic`). -/
def isTrustedIP (T : NetText) (nets : Option (List IPNet)) (parser : Option Str) (h : Headers)
    (remoteAddr : Str) : Outcome Bool :=
  if nets.isNone && remoteAddr != "@".toList then .ok false
  else
    match getClientIP T parser h remoteAddr with
    | .error => .ok false         -- `err != nil`
    | .absent => .ok false        -- `remoteAddr == nil`
    | .addr a =>
      match nets with
      | none => .panic "nil pointer dereference"
      | some ns => NetSet.lookup ns (.ip16 a)

end O2P
