import O2P.Basic
/-
  Skip-auth rules (oauthproxy.go: buildRoutesAllowlist, isAllowedMethod, isAllowedPath,
  isAllowedRoute, IsAllowedRequest).  The regular-expression engine is a PARAMETER
  `rx : pattern → subject → Bool` (Go's regexp.MatchString); nothing about it is assumed.
-/
namespace O2P

structure Route where
  method  : Str
  negate  : Bool
  pattern : Str
  deriving Repr, DecidableEq

/-- leftmost match of the Go regexp `!?=` : (index, length) -/
def findSep : Str → Option (Nat × Nat)
  | [] => none
  | '=' :: _ => some (0, 1)
  | '!' :: '=' :: _ => some (0, 2)
  | _ :: cs => (findSep cs).map (fun (i, l) => (i + 1, l))

/-- one `--skip-auth-route` entry: `METHOD=re`, `METHOD!=re`, `!=re`, `re` -/
def parseRoute (rule : Str) : Route :=
  match findSep rule with
  | none => { method := [], negate := false, pattern := rule }
  | some (i, l) => { method := upper (rule.take i), negate := l == 2, pattern := rule.drop (i + l) }

/-- one legacy `--skip-auth-regex` entry -/
def legacyRoute (re : Str) : Route := { method := [], negate := false, pattern := re }

def buildRoutes (legacy rules : List Str) : List Route := legacy.map legacyRoute ++ rules.map parseRoute

def routeAllows (rx : Str → Str → Bool) (r : Route) (method path : Str) : Bool :=
  (r.method.isEmpty || method == r.method) && (rx r.pattern path != r.negate)

def isAllowedRoute (rx : Str → Str → Bool) (routes : List Route) (method path : Str) : Bool :=
  routes.any (fun r => routeAllows rx r method path)

def isPreflight (skipPreflight : Bool) (method : Str) : Bool := skipPreflight && method == "OPTIONS".toList

/-- `IsAllowedRequest` given the trusted-IP verdict -/
def isAllowedRequest (rx : Str → Str → Bool) (skipPreflight : Bool) (routes : List Route)
    (trusted : Bool) (method path : Str) : Bool :=
  isPreflight skipPreflight method || isAllowedRoute rx routes method path || trusted

/-- `requestutil.GetRequestPath`'s fallback when `url.Parse` fails: cut at the first '?' -/
def stripQuery (uri : Str) : Str := (splitFirst '?' uri).1

end O2P
