/-
  O2P.Model.Redirect — executable model of oauth2-proxy's redirect validation (property C06).

  Go sources modelled
  * `/repo/pkg/app/redirect/validator.go`   (`invalidRedirectRegex`, `IsValidRedirect`)
  * `/repo/pkg/app/redirect/director.go`    (`GetRedirect`, `validateRedirect`, `hasProxyPrefix`,
                                             `NewAppDirector` prefix normalisation)
  * `/repo/pkg/app/redirect/getters.go`     (the four redirect getters)
  * `/repo/pkg/util/util.go`                (`SplitHostPort`, `validOptionalPort`,
                                             `IsEndpointAllowed`, `isHostnameAllowed`)
  * Go stdlib `path.Clean`, `path.Split` (dir part), `net/http.Redirect`,
    `net/http.hexEscapeNonASCII`, and the header-value sanitisation done by
    `net/http.Header.writeSubset` (`\n`,`\r` → space, then `textproto.TrimString`).
  * WHATWG URL parser preprocessing + the "relative / relative-slash" states, as far as needed
    to decide whether a relative reference resolved against an http(s) base stays on the
    base's origin (`browserOffOrigin`).

  Conventions: `Str = List Char`, one `Char` per byte.  Core Lean only.

  Executable entry points (all total, structurally recursive):
    invalidRel            : Str → Bool                       -- invalidRedirectRegex.MatchString
    isValidRedirect       : List Str → Str → Option (Str × Str) → Bool
                            -- (allowedDomains) (redirect) (url.Parse outcome: none = error,
                            --  some (Hostname(), Port())), consulted only on the http(s):// branch
    splitHostPort         : Str → Str × Str                  -- util.SplitHostPort
    validOptionalPort     : Str → Bool
    isHostnameAllowed     : Str → Str → Bool                 -- (hostname) (allowedHost)
    isEndpointAllowed     : Str → Str → List Str → Bool      -- (Hostname()) (Port()) (allowedDomains)
    goClean               : Str → Str                        -- path.Clean
    goRedirectRewrite     : Str → Str → Str                  -- (r.URL.Path) (target) ↦ Location, rewrite outcome
    goRedirectVerbatim    : Str → Str                        -- target ↦ Location, other outcome
    hexEscapeNonASCII     : Str → Str
    wireHeaderValue       : Str → Str                        -- Header.writeSubset sanitisation
    browserOffOrigin      : Str → Bool                       -- WHATWG: does a relative ref leave the origin
    normPrefix            : Str → Str                        -- NewAppDirector prefix normalisation
    getRedirectWith       : (Str → Bool) → Str → Str → Bool → Str → Str → Str → Str → Str → Str
                            -- (validator) rd xAuth isForwarded proto host uri reqURI proxyPrefix
    getRedirect           : List Str → (Str → Option (Str × Str)) → Str → Str → Bool →
                            Str → Str → Str → Str → Str → Str
                            -- allowed parseOracle rd xAuth isForwarded proto host uri reqURI proxyPrefix
    getRedirectTbl        : same, with the url.Parse oracle given as an association list
                            List (Str × Option (Str × Str))

  Validation: `RedirectCheck.lean` (exe `redirectcheck`) replays ~490k cases produced by the
  real Go code (`/var/tmp/ag_redirect/go/zz_test.go`, injected with `-overlay` into package
  `redirect`) and ~145k cases produced by Node's WHATWG `URL` for `browserOffOrigin`.
-/
import O2P.Basic

namespace O2P
namespace Redirect

/-! ## Character classes -/

/-- `[/\\]` -/
def isSep (c : Char) : Bool := c == '/' || c == '\\'

/-- Go-RE2 `[\s\v]`: `\s` = `[\t\n\f\r ]`, `\v` = vertical tab 0x0b. -/
def isWs (c : Char) : Bool :=
  c == '\t' || c == '\n' || c == Char.ofNat 0x0b || c == Char.ofNat 0x0c || c == '\r' || c == ' '

/-! ## `invalidRedirectRegex.MatchString`

  The regex is ``[/\\](?:[\s\v]*|\.{1,2})[/\\]`` used unanchored.  `invalidRel` is a direct
  scanner: at every separator position, test whether what follows is `ws* sep`, `. sep` or
  `.. sep`.  (Every class in the regex is ASCII, so matching on Go's rune decoding of a byte
  string and matching byte-wise coincide: bytes ≥ 0x80 never belong to any class.) -/

/-- the remaining input starts with `[\s\v]*[/\\]` -/
def wsThenSep : Str → Bool
  | [] => false
  | c :: cs => isSep c || (isWs c && wsThenSep cs)

/-- the remaining input starts with `\.{1,2}[/\\]` -/
def dotsThenSep : Str → Bool
  | '.' :: c :: cs =>
      isSep c || (c == '.' && match cs with
                              | d :: _ => isSep d
                              | [] => false)
  | _ => false

/-- what may follow a separator for the regex to match -/
def afterSep (s : Str) : Bool := wsThenSep s || dotsThenSep s

/-- `invalidRedirectRegex.MatchString(s)` -/
def invalidRel : Str → Bool
  | [] => false
  | c :: cs => (isSep c && afterSep cs) || invalidRel cs

/-! ## `pkg/util`: `SplitHostPort`, `validOptionalPort`, `IsEndpointAllowed` -/

/-- `validOptionalPort`: `""`, `":*"` or `:` followed by ASCII digits only.
    (Go ranges over runes of `port[1:]`; a byte ≥ 0x80 yields a rune that is never a digit, so
    the byte-wise test is equivalent.) -/
def validOptionalPort (port : Str) : Bool :=
  if port == [] || port == [':', '*'] then true
  else match port with
    | ':' :: rest => rest.all isDigit
    | _ => false

/-- `util.SplitHostPort` -/
def splitHostPort (hostport : Str) : Str × Str :=
  let hp : Str × Str :=
    match lastIndexOf ':' hostport with
    | some colon =>
        if validOptionalPort (hostport.drop colon)
        then (hostport.take colon, hostport.drop (colon + 1))
        else (hostport, [])
    | none => (hostport, [])
  let host := hp.1
  let host := if hasPrefix ['['] host && hasSuffix [']'] host then (host.drop 1).dropLast else host
  (host, hp.2)

/-- `util.isHostnameAllowed` -/
def isHostnameAllowed (hostname allowedHost : Str) : Bool :=
  hostname == trimPrefix ['.'] allowedHost ||
  hostname == trimPrefix ['*', '.'] allowedHost ||
  (hasPrefix ['.'] allowedHost && hasSuffix allowedHost hostname) ||
  (hasPrefix ['*', '.'] allowedHost && hasSuffix (allowedHost.drop 1) hostname)

/-- one iteration of the loop of `IsEndpointAllowed` -/
def domainAllows (hostname port allowedDomain : Str) : Bool :=
  let hp := splitHostPort allowedDomain
  if hp.1 == [] then false
  else isHostnameAllowed hostname hp.1 &&
       (hp.2 == ['*'] || hp.2 == port || (hp.2 == [] && port == []))

/-- `util.IsEndpointAllowed(endpoint, allowedDomains)` where `hostname = endpoint.Hostname()`
    and `port = endpoint.Port()`. -/
def isEndpointAllowed (hostname port : Str) (allowedDomains : List Str) : Bool :=
  -- since the fix "never treat a redirect URL without a host as being on an allowed domain":
  -- `if hostname == "" { return false }`
  !hostname.isEmpty && allowedDomains.any (domainAllows hostname port)

/-- the function before that fix (kept for the regression witness in `O2P.Props.C06`) -/
def isEndpointAllowedOld (hostname port : Str) (allowedDomains : List Str) : Bool :=
  allowedDomains.any (domainAllows hostname port)

/-! ## `validator.IsValidRedirect` -/

def httpPrefix : Str := ['h', 't', 't', 'p', ':', '/', '/']
def httpsPrefix : Str := ['h', 't', 't', 'p', 's', ':', '/', '/']
/-- `"://"` -/
def schemeSep : Str := [':', '/', '/']

/-- `IsValidRedirect(redirect)`.  `parsed` is the outcome of `url.Parse(redirect)` reduced to
    what the code uses: `none` = parse error, `some (u.Hostname(), u.Port())` otherwise.  It is
    only consulted on the `http://` / `https://` branch. -/
def isValidRedirect (allowed : List Str) (s : Str) (parsed : Option (Str × Str)) : Bool :=
  if s == [] then false
  else if hasPrefix ['/'] s && !hasPrefix ['/', '/'] s && !invalidRel s then true
  else if hasPrefix httpPrefix s || hasPrefix httpsPrefix s then
    match parsed with
    | none => false
    | some (h, p) => isEndpointAllowed h p allowed
  else false

/-! ## Go `path.Clean`

  `path.Clean` walks the bytes with a read index that is always at the start of a path element
  or on the `/` that ends one; so it is a left fold over the `/`-separated elements.  The
  output buffer is modelled as (`ups`, `elems`): `ups` = number of leading `..` elements below
  the `dotdot` floor (non-rooted paths only), `elems` = the real elements above the floor,
  most recent first. -/

def dot : Str := ['.']
def dotdot : Str := ['.', '.']

def cleanStep (rooted : Bool) (st : Nat × List Str) (seg : Str) : Nat × List Str :=
  if seg == [] || seg == dot then st
  else if seg == dotdot then
    match st.2 with
    | _ :: es => (st.1, es)                           -- `out.w > dotdot`: backtrack one element
    | [] => if rooted then st else (st.1 + 1, [])     -- rooted: drop it; else append `..`
  else (st.1, seg :: st.2)

/-- the output of `path.Clean` for a path with a leading `/` whose remainder is `body` -/
def cleanRooted (body : Str) : Str :=
  let st := (splitOn '/' body).foldl (cleanStep true) (0, [])
  '/' :: joinWith '/' st.2.reverse

/-- `path.Clean` -/
def goClean (p : Str) : Str :=
  match p with
  | [] => dot
  | '/' :: body => cleanRooted body
  | _ =>
    let st := (splitOn '/' p).foldl (cleanStep false) (0, [])
    let parts := List.replicate st.1 dotdot ++ st.2.reverse
    if parts.isEmpty then dot else joinWith '/' parts

/-- directory part of `path.Split`: everything up to and including the last `/` -/
def pathDir (p : Str) : Str :=
  match lastIndexOf '/' p with
  | some i => p.take (i + 1)
  | none => []

/-! ## `net/http.Redirect` -/

def hexDigit (n : Nat) : Char :=
  if n < 10 then Char.ofNat (48 + n) else Char.ofNat (87 + n)

/-- bytes ≥ 0x80 become `%xx` (lower-case hex, as `strconv.AppendInt(_, _, 16)` prints) -/
def hexEscapeChar (c : Char) : Str :=
  if 0x80 ≤ c.toNat then ['%', hexDigit (c.toNat / 16 % 16), hexDigit (c.toNat % 16)] else [c]

/-- `net/http.hexEscapeNonASCII` -/
def hexEscapeNonASCII (s : Str) : Str := s.flatMap hexEscapeChar

/-- the part of the target before the first `?` -/
def pathPart (s : Str) : Str := s.takeWhile (· != '?')
/-- the first `?` and everything after it (empty when there is none) -/
def queryPart (s : Str) : Str := s.dropWhile (· != '?')

/-- `path.Clean` with the trailing slash restored, as `http.Redirect` does -/
def cleanKeepSlash (p : Str) : Str :=
  let c := goClean p
  if hasSuffix ['/'] p && !hasSuffix ['/'] c then c ++ ['/'] else c

/-- Value passed to `Header.Set("Location", ·)` by `http.Redirect(w, r, target, code)` when
    `url.Parse(target)` succeeds with empty scheme and empty host; `reqPath` is `r.URL.Path`. -/
def goRedirectRewrite (reqPath target : Str) : Str :=
  let oldpath := if reqPath == [] then ['/'] else reqPath
  let url :=
    match target with
    | '/' :: _ => target
    | _ => pathDir oldpath ++ target
  hexEscapeNonASCII (cleanKeepSlash (pathPart url) ++ queryPart url)

/-- Value passed to `Header.Set("Location", ·)` in the other outcome (`url.Parse` failed, e.g.
    because of a control character, or scheme/host non-empty). -/
def goRedirectVerbatim (target : Str) : Str := hexEscapeNonASCII target

/-- `textproto.isASCIISpace` -/
def isHdrSpace (c : Char) : Bool := c == ' ' || c == '\t' || c == '\n' || c == '\r'

/-- What `Header.writeSubset` puts on the wire for a header value:
    `headerNewlineToSpace.Replace` then `textproto.TrimString`. -/
def wireHeaderValue (v : Str) : Str :=
  let v := v.map (fun c => if c == '\n' || c == '\r' then ' ' else c)
  ((v.dropWhile isHdrSpace).reverse.dropWhile isHdrSpace).reverse

/-! ## Browser side (WHATWG URL standard)

  Basic URL parser, input = a Location value, base = an `http`/`https` URL:
  1. strip leading and trailing C0 control or space (bytes ≤ 0x20);
  2. remove all ASCII tab or newline (`\t`, `\n`, `\r`) anywhere;
  3. *scheme start / scheme state*: if the input starts with `[A-Za-z][A-Za-z0-9+.-]*:` it has
     its own scheme (we treat that as off-origin, which over-approximates: `http:foo` against
     an `http` base would in fact stay relative);
  4. otherwise *relative state* / *relative slash state* for a special scheme: the host is
     replaced iff the first two code points are both `/` or `\`.
  `browserOffOrigin s = false` therefore means: the browser keeps the base URL's
  scheme, host and port. -/

def isC0Space (c : Char) : Bool := c.toNat ≤ 0x20
def isTabNl (c : Char) : Bool := c == '\t' || c == '\n' || c == '\r'

def stripTrailing (s : Str) : Str := (s.reverse.dropWhile isC0Space).reverse

/-- WHATWG steps 1–2 -/
def browserPre (s : Str) : Str :=
  (stripTrailing (s.dropWhile isC0Space)).filter (fun c => !isTabNl c)

def isAlpha (c : Char) : Bool := ('a' ≤ c && c ≤ 'z') || ('A' ≤ c && c ≤ 'Z')
def isSchemeChar (c : Char) : Bool := isAlpha c || isDigit c || c == '+' || c == '-' || c == '.'

def schemeRest : Str → Bool
  | [] => false
  | c :: cs => c == ':' || (isSchemeChar c && schemeRest cs)

def startsWithScheme : Str → Bool
  | [] => false
  | c :: cs => isAlpha c && schemeRest cs

def startsWithTwoSeps : Str → Bool
  | a :: b :: _ => isSep a && isSep b
  | _ => false

def browserOffOrigin (s : Str) : Bool :=
  let t := browserPre s
  startsWithTwoSeps t || startsWithScheme t

/-! ## `director.go` / `getters.go` -/

/-- `NewAppDirector`: ensure the prefix ends in `/` -/
def normPrefix (prefix_ : Str) : Str :=
  if hasSuffix ['/'] prefix_ then prefix_ else prefix_ ++ ['/']

/-- `appDirector.validateRedirect` -/
def validateRedirect (valid : Str → Bool) (r : Str) : Str := if valid r then r else []

def getRd (valid : Str → Bool) (rd : Str) : Str := validateRedirect valid rd
def getXAuth (valid : Str → Bool) (xAuth : Str) : Str := validateRedirect valid xAuth

/-- `getXForwardedHeadersRedirect` -/
def getXForwarded (valid : Str → Bool) (isForwarded : Bool) (proto host uri proxyPrefix : Str) : Str :=
  if !isForwarded then []
  else
    let u := if hasPrefix proxyPrefix uri then ['/'] else uri
    validateRedirect valid (proto ++ schemeSep ++ host ++ u)

/-- `getURIRedirect` -/
def getURI (valid : Str → Bool) (uri reqURI proxyPrefix : Str) : Str :=
  let r := validateRedirect valid uri
  let r := if r == [] then reqURI else r
  if hasPrefix proxyPrefix r then ['/'] else r

/-- the loop of `GetRedirect` over the getter results -/
def firstValid (valid : Str → Bool) : List Str → Str
  | [] => ['/']
  | r :: rs => if r != [] && valid r then r else firstValid valid rs

/-- `GetRedirect` for an arbitrary validator (the Go `Validator` is an interface). Inputs:
    `rd` = `req.Form.Get("rd")`, `xAuth` = header `X-Auth-Request-Redirect`,
    `isForwarded` = `requestutil.IsForwardedRequest(req)`, `proto/host/uri` =
    `GetRequestProto/Host/URI(req)`, `reqURI` = `req.URL.RequestURI()`, `proxyPrefix` =
    the director's prefix (already with trailing slash, see `normPrefix`). -/
def getRedirectWith (valid : Str → Bool) (rd xAuth : Str) (isForwarded : Bool)
    (proto host uri reqURI proxyPrefix : Str) : Str :=
  firstValid valid
    [ getRd valid rd,
      getXAuth valid xAuth,
      getXForwarded valid isForwarded proto host uri proxyPrefix,
      getURI valid uri reqURI proxyPrefix ]

/-- `GetRedirect` with the real validator; `parse s` is the `url.Parse` oracle
    (`none` = error, `some (Hostname(), Port())`). -/
def getRedirect (allowed : List Str) (parse : Str → Option (Str × Str)) (rd xAuth : Str)
    (isForwarded : Bool) (proto host uri reqURI proxyPrefix : Str) : Str :=
  getRedirectWith (fun s => isValidRedirect allowed s (parse s))
    rd xAuth isForwarded proto host uri reqURI proxyPrefix

/-- oracle from a finite table (strings not in the table are treated as parse errors) -/
def tblParse (tbl : List (Str × Option (Str × Str))) (s : Str) : Option (Str × Str) :=
  match tbl.find? (fun e => e.1 == s) with
  | some e => e.2
  | none => none

def getRedirectTbl (allowed : List Str) (tbl : List (Str × Option (Str × Str))) (rd xAuth : Str)
    (isForwarded : Bool) (proto host uri reqURI proxyPrefix : Str) : Str :=
  getRedirect allowed (tblParse tbl) rd xAuth isForwarded proto host uri reqURI proxyPrefix

end Redirect
end O2P
