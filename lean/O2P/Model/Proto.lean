import O2P.Basic
/-! Line-protocol helpers for the driver: fields are tab-separated; a string field is `x<hex>`
    (`x` alone = empty string); a list of strings is comma-separated hex fields, `-` = empty list;
    numbers are decimal; booleans 0/1.  Unparseable input yields the literal output `bad-op`
    (never a default). -/
namespace O2P.Proto

def hexVal (c : Char) : Option Nat :=
  if '0' ≤ c && c ≤ '9' then some (c.toNat - 48)
  else if 'a' ≤ c && c ≤ 'f' then some (c.toNat - 87)
  else if 'A' ≤ c && c ≤ 'F' then some (c.toNat - 55)
  else none

def unhexList : List Char → Option Str
  | [] => some []
  | [_] => none
  | a :: b :: rest => do
    let h ← hexVal a
    let l ← hexVal b
    let r ← unhexList rest
    pure (Char.ofNat (h * 16 + l) :: r)

/-- `x<hex>` → string -/
def str (f : String) : Option Str :=
  match f.toList with
  | 'x' :: rest => unhexList rest
  | _ => none

def strs (f : String) : Option (List Str) :=
  if f == "-" then some [] else (f.splitOn ",").mapM str

def nat (f : String) : Option Nat := f.toNat?
def int (f : String) : Option Int := f.toInt?
def bool (f : String) : Option Bool := if f == "1" then some true else if f == "0" then some false else none

def hexDigit (n : Nat) : Char := if n < 10 then Char.ofNat (48 + n) else Char.ofNat (87 + n)
def hex (s : Str) : String := "x" ++ String.ofList (s.flatMap (fun c => [hexDigit (c.toNat / 16), hexDigit (c.toNat % 16)]))
def hexs (l : List Str) : String := if l.isEmpty then "-" else ",".intercalate (l.map hex)
def b (x : Bool) : String := if x then "1" else "0"

end O2P.Proto
