/-
  O2P.Model.Publish — atomic snapshot publication for reloading credential files
  (property C20): interleaving model of reloaders / validators / file writer, the
  static lock-discipline check `raceFree` over extracted access facts, and a small
  interleaving model of a reader/writer mutex used to justify the lockset discipline.

  Go source modelled:
    pkg/authentication/basic/htpasswd.go  htpasswdMap: loadHTPasswdFile builds a FRESH map
        (createHtpasswdMap) and then assigns `h.users = updated.users` under `rwm.Lock()`;
        Validate reads `h.users[user]` once.
    validator.go  UserMap: LoadAuthenticatedEmailsFile builds a fresh map and
        `atomic.StorePointer`s it; IsValid `atomic.LoadPointer`s it once and looks up.

  Abstractions:
  * a snapshot is an immutable association list key ↦ value (`Nat`s; for htpasswd key = user,
    value = password hash; for the e-mail list value is irrelevant);
  * `heap` models allocated maps, `cell` the shared pointer (`h.users` / `um.m`);
  * one model step = one shared access (file read, cell read, cell write, map lookup) or one
    local computation; the cell read/write being ONE atomic step is exactly what
    `raceFree` (both atomic, or a common lock held exclusively by the writer) buys — see
    `O2P.Lockset` below and `lockset_sound` in `O2P/Props/C20.lean`;
  * `pubs` is ghost state: the sequence of complete contents that have been in force
    (oldest first); validators record the index of the version in force when they start
    and when they return.

  Core Lean only; executable.
-/
import O2P.Basic

namespace O2P.Pub

/-- Immutable contents of one file version: association list key ↦ value. -/
abbrev Snapshot := List (Nat × Nat)

/-- The answer of a validation for `key` against contents `s`. -/
def lookup (key : Nat) (s : Snapshot) : Option Nat := List.lookup key s

inductive Variant where
  | real        -- build a private map, publish with one pointer write; validators read once
  | twoStep     -- mutant: reload mutates the published map in place (clear, then fill)
  | readTwice   -- mutant: validator reads the cell twice (existence, then value)
  deriving DecidableEq, Repr

inductive Role where
  | writer                   -- rewrites the file: moves on to the next file version
  | reloader                 -- one reload (watcher callback)
  | validator (key : Nat)    -- one validation of `key`
  deriving DecidableEq, Repr

/-- Thread states (program counter + locals + ghost indices). -/
inductive PT where
  | idle                                        -- no such thread
  | writer
  | rRead                                       -- reloader: about to read the file
  | rParse (f : Option Snapshot)                -- file read; `none` = malformed / unreadable
  | rBuild (s : Snapshot)                       -- parsed; about to build the private map
  | rPublish (p : Nat)                          -- private map at `heap[p]`; about to publish
  | rClear (s : Snapshot)                       -- (twoStep) about to clear the live map
  | rFill (s : Snapshot)                        -- (twoStep) about to fill the live map
  | rDone (pub : Option Nat)                    -- `some k`: published as version index `k`;
                                                -- `none`: reload failed, nothing changed
  | vStart (key : Nat)
  | vRead (key s : Nat)                         -- about to read the cell; `s` = start index
  | vLookup (key s p : Nat)                     -- about to look `key` up in `heap[p]`
  | vRead2 (key s : Nat)                        -- (readTwice) about to read the cell again
  | vLookup2 (key s p : Nat)                    -- (readTwice) second lookup
  | vRet (key s : Nat) (a : Option Nat)         -- answer computed; about to return
  | vDone (key s e : Nat) (a : Option Nat)      -- returned; `e` = end index
  deriving DecidableEq, Repr

structure Config where
  files   : List (Option Snapshot)   -- successive file versions; `none` = malformed
  fileIdx : Nat                      -- version currently on disk
  heap    : List Snapshot            -- allocated maps
  cell    : Nat                      -- the shared pointer (index into `heap`)
  pubs    : List Snapshot            -- ghost: contents that have been in force, oldest first
  threads : Nat → PT

def Config.setT (c : Config) (tid : Nat) (th : PT) : Config :=
  { c with threads := fun i => if i = tid then th else c.threads i }

/-- The map a pointer refers to (`[]` for a dangling pointer, which never occurs). -/
def Config.deref (c : Config) (p : Nat) : Snapshot := c.heap[p]?.getD []

/-- Index of the version currently in force. -/
def Config.curIdx (c : Config) : Nat := c.pubs.length - 1

def step (v : Variant) (c : Config) (tid : Nat) : Config :=
  match c.threads tid with
  | .idle => c
  | .writer => { c with fileIdx := c.fileIdx + 1 }
  | .rRead => c.setT tid (.rParse (c.files[c.fileIdx]?.getD none))
  | .rParse none => c.setT tid (.rDone none)               -- error logged, map untouched
  | .rParse (some s) =>
    if v = .twoStep then c.setT tid (.rClear s) else c.setT tid (.rBuild s)
  | .rBuild s => { c with heap := c.heap ++ [s] }.setT tid (.rPublish c.heap.length)
  | .rPublish p =>
    { c with cell := p, pubs := c.pubs ++ [c.deref p] }.setT tid (.rDone (some c.pubs.length))
  | .rClear s => { c with heap := c.heap.set c.cell [] }.setT tid (.rFill s)
  | .rFill s =>
    { c with heap := c.heap.set c.cell s, pubs := c.pubs ++ [s] }.setT tid
      (.rDone (some c.pubs.length))
  | .rDone _ => c
  | .vStart key => c.setT tid (.vRead key c.curIdx)
  | .vRead key s => c.setT tid (.vLookup key s c.cell)
  | .vLookup key s p =>
    if v = .readTwice then
      if (lookup key (c.deref p)).isSome then c.setT tid (.vRead2 key s)
      else c.setT tid (.vRet key s none)
    else c.setT tid (.vRet key s (lookup key (c.deref p)))
  | .vRead2 key s => c.setT tid (.vLookup2 key s c.cell)
  | .vLookup2 key s p =>
    -- Go's zero value for a key that vanished between the two reads
    c.setT tid (.vRet key s (some ((lookup key (c.deref p)).getD 0)))
  | .vRet key s a => c.setT tid (.vDone key s c.curIdx a)
  | .vDone .. => c

def run (v : Variant) (c : Config) (sched : List Nat) : Config :=
  sched.foldl (step v) c

def Role.start : Role → PT
  | .writer => .writer
  | .reloader => .rRead
  | .validator k => .vStart k

/-- Initial configuration: `initial` is in force (loaded by the constructor), `files` are the
versions the file goes through (index 0 is on disk now), thread `i` plays `roles[i]`. -/
def init (initial : Snapshot) (files : List (Option Snapshot)) (roles : List Role) : Config :=
  { files := files, fileIdx := 0, heap := [initial], cell := 0, pubs := [initial]
    threads := fun i => match roles[i]? with
      | some r => r.start
      | none => .idle }

/-! ### Executable linearizability check -/

/-- Is answer `a` for `key` explained by a version with index in `[s, e]`? -/
def explained (pubs : List Snapshot) (key s e : Nat) (a : Option Nat) : Bool :=
  (List.range (e + 1 - s)).any fun d =>
    match pubs[s + d]? with
    | some sn => lookup key sn == a
    | none => false

/-- Every completed validation among threads `< n` is explained by a version that was in
force at some instant of its execution. -/
def linOK (c : Config) (n : Nat) : Bool :=
  (List.range n).all fun t =>
    match c.threads t with
    | .vDone key s e a => explained c.pubs key s e a
    | _ => true

structure ValSummary where
  tid    : Nat
  key    : Nat
  done   : Bool
  answer : Option Nat
  startV : Nat
  endV   : Nat
  ok     : Bool      -- explained by a version in `[startV, endV]`
  deriving DecidableEq, Repr

structure Summary where
  versions   : Nat            -- number of versions that have been in force
  current    : Snapshot       -- contents reachable from the cell now
  validators : List ValSummary
  reloads    : List (Nat × Option Nat)   -- finished reloaders: (tid, published version index)
  linearizable : Bool
  deriving DecidableEq, Repr

def Config.summary (c : Config) (n : Nat) : Summary :=
  { versions := c.pubs.length
    current := c.deref c.cell
    validators := (List.range n).filterMap fun t =>
      match c.threads t with
      | .vDone key s e a => some ⟨t, key, true, a, s, e, explained c.pubs key s e a⟩
      | .vStart key => some ⟨t, key, false, none, 0, 0, true⟩
      | .vRead key s | .vLookup key s _ | .vRead2 key s | .vLookup2 key s _ | .vRet key s _ =>
        some ⟨t, key, false, none, s, 0, true⟩
      | _ => none
    reloads := (List.range n).filterMap fun t =>
      match c.threads t with
      | .rDone k => some (t, k)
      | _ => none
    linearizable := linOK c n }

/-- Driver entry. -/
def runPublish (v : Variant) (initial : Snapshot) (files : List (Option Snapshot))
    (roles : List Role) (schedule : List Nat) : Summary :=
  (run v (init initial files roles) schedule).summary roles.length

def Variant.ofString : String → Option Variant
  | "real" => some .real
  | "twoStep" => some .twoStep
  | "readTwice" => some .readTwice
  | _ => none

end O2P.Pub

/-! ## Static lock discipline over extracted access facts -/

namespace O2P.Race

inductive LockMode where
  | none | R | W
  deriving DecidableEq, Repr

def LockMode.ofString : String → LockMode
  | "R" => .R
  | "W" => .W
  | _ => .none

/-- One shared-variable access of one function, as extracted from the Go AST:
`func` accesses `var` (`write`?) while holding `lock` in `lockMode` (`.none`: no lock),
`atomic` = through `sync/atomic`. -/
structure AccessFact where
  func     : String
  var      : String
  write    : Bool
  lock     : String
  lockMode : LockMode
  atomic   : Bool
  deriving DecidableEq, Repr

/-- Constructor taking the lock mode as the string `"none" | "R" | "W"`. -/
def AccessFact.ofStrings (func var : String) (write : Bool) (lock lockMode : String)
    (atomic : Bool) : AccessFact :=
  ⟨func, var, write, lock, LockMode.ofString lockMode, atomic⟩

/-- Two accesses conflict: same variable, at least one write.  (Any two facts — including a
fact with itself — may be executed by different goroutines.) -/
def conflict (a b : AccessFact) : Bool :=
  a.var == b.var && (a.write || b.write)

/-- The lock protects this access: some lock is held, exclusively if the access writes. -/
def guarded (a : AccessFact) : Bool :=
  match a.lockMode with
  | .none => false
  | .R => !a.write
  | .W => true

/-- A conflicting pair is synchronised: both atomic, or a common lock which every writer of
the pair holds exclusively. -/
def pairOK (a b : AccessFact) : Bool :=
  (a.atomic && b.atomic) || (a.lock == b.lock && guarded a && guarded b)

/-- The lockset discipline: every conflicting pair of accesses is synchronised. -/
def raceFree (facts : List AccessFact) : Bool :=
  facts.all fun a => facts.all fun b => !conflict a b || pairOK a b

/-- The unsynchronised conflicting pairs (for reporting). -/
def races (facts : List AccessFact) : List (AccessFact × AccessFact) :=
  facts.flatMap fun a => (facts.filter fun b => conflict a b && !pairOK a b).map fun b => (a, b)

/-! ### Dynamic access events -/

/-- A dynamic shared-variable access: thread, variable, read/write, lockset (each lock with
`true` = held exclusively), atomic. -/
structure Access where
  thread  : Nat
  var     : String
  write   : Bool
  lockset : List (String × Bool)
  atomic  : Bool
  deriving DecidableEq, Repr

def AccessFact.toAccess (f : AccessFact) (thread : Nat) : Access :=
  { thread := thread, var := f.var, write := f.write, atomic := f.atomic
    lockset := match f.lockMode with
      | .none => []
      | .R => [(f.lock, false)]
      | .W => [(f.lock, true)] }

/-- Two dynamic accesses race: different threads, same variable, one writes, not both atomic,
and no common lock that the writer(s) hold exclusively. -/
def Access.races (a b : Access) : Bool :=
  a.thread != b.thread && a.var == b.var && (a.write || b.write) &&
  !(a.atomic && b.atomic) &&
  !(a.lockset.any fun (l, ex) => b.lockset.any fun (l', ex') =>
      l == l' && (!a.write || ex) && (!b.write || ex'))

def eventsRaceFree (as : List Access) : Bool :=
  as.all fun a => as.all fun b => !a.races b

end O2P.Race

/-! ## Interleaving model of a reader/writer mutex (to justify the lockset discipline) -/

namespace O2P.Lockset

open O2P.Race

inductive LPC where
  | idle      -- before acquiring
  | inCS      -- lock (if any) held: the access is enabled / in progress
  | finished
  deriving DecidableEq, Repr

structure RW where
  writer  : Option Nat
  readers : List Nat
  deriving DecidableEq, Repr

structure LThread where
  fact : AccessFact
  pc   : LPC
  deriving DecidableEq, Repr

structure LConfig where
  locks   : String → RW
  threads : Nat → Option LThread    -- `none`: no such thread

def LConfig.setT (c : LConfig) (tid : Nat) (th : LThread) : LConfig :=
  { c with threads := fun i => if i = tid then some th else c.threads i }

def LConfig.setL (c : LConfig) (l : String) (rw : RW) : LConfig :=
  { c with locks := fun x => if x = l then rw else c.locks x }

/-- `sync.RWMutex` semantics: `Lock` needs no writer and no readers, `RLock` needs no writer
(blocked acquisitions leave the configuration unchanged); the access happens while `inCS`;
the step out of `inCS` releases. -/
def lstep (c : LConfig) (tid : Nat) : LConfig :=
  match c.threads tid with
  | none => c
  | some th =>
    match th.pc with
    | .idle =>
      match th.fact.lockMode with
      | .none => c.setT tid { th with pc := .inCS }
      | .R =>
        let rw := c.locks th.fact.lock
        if rw.writer = none then
          (c.setL th.fact.lock { rw with readers := tid :: rw.readers }).setT tid
            { th with pc := .inCS }
        else c
      | .W =>
        let rw := c.locks th.fact.lock
        if rw.writer = none ∧ rw.readers = [] then
          (c.setL th.fact.lock { rw with writer := some tid }).setT tid { th with pc := .inCS }
        else c
    | .inCS =>
      match th.fact.lockMode with
      | .none => c.setT tid { th with pc := .finished }
      | .R =>
        let rw := c.locks th.fact.lock
        (c.setL th.fact.lock { rw with readers := rw.readers.filter (· ≠ tid) }).setT tid
          { th with pc := .finished }
      | .W =>
        let rw := c.locks th.fact.lock
        (c.setL th.fact.lock { rw with writer := none }).setT tid { th with pc := .finished }
    | .finished => c

def lrun (c : LConfig) (sched : List Nat) : LConfig := sched.foldl lstep c

/-- Thread `i` executes `prog[i]`; all locks free. -/
def linit (prog : List AccessFact) : LConfig :=
  { locks := fun _ => { writer := none, readers := [] }
    threads := fun i => prog[i]?.map fun f => { fact := f, pc := .idle } }

end O2P.Lockset
