/-
  O2P.Model.Base64 — executable model of Go's `encoding/base64` as used by oauth2-proxy
  (`StdEncoding`, `URLEncoding`, `RawStdEncoding`, `RawURLEncoding`; all NON-strict).

  Source: $GOROOT/src/encoding/base64/base64.go (go1.23.7), `Encode`, `Decode`,
  `decodeQuantum`.

  Decoder behaviour that is modelled exactly (error ↦ `none`; Go's partial output that
  accompanies an error is dropped, every oauth2-proxy caller discards it on `err != nil`):
  * `\r` and `\n` are skipped wherever they occur (before, inside, between and after the
    padding characters too) — `decodeQuantum` skips them in all of its loops, and the
    fast paths (`assemble32/64`) only fire on 4/8 alphabet characters.  Hence
    `Decode s = Decode (s without CR/LF)` and the model filters first.
  * a final partial quantum of 2 or 3 characters yields 1 or 2 bytes; its unused trailing
    bits are NOT checked (non-strict);
  * padded encodings: a final partial quantum must be completed by `==` / `=`; nothing (other
    than CR/LF) may follow the padding; `=` in position 0 or 1 of a quantum is an error;
  * raw encodings: `=` is just an illegal character;
  * a single dangling character, or any character outside the alphabet, is an error.

  Core Lean only.
-/
import O2P.Basic

namespace O2P

/-- the byte a `Char` stands for (identity on the intended range 0..255) -/
def byteOf (c : Char) : Nat := c.toNat % 256

/-- alphabet: `A-Z a-z 0-9` then `+ /` (std) or `- _` (url) -/
def b64Char (url : Bool) (n : Nat) : Char :=
  if n < 26 then Char.ofNat (65 + n)
  else if n < 52 then Char.ofNat (71 + n)
  else if n < 62 then Char.ofNat (n - 4)
  else if n = 62 then (if url then '-' else '+')
  else (if url then '_' else '/')

/-- Go's `decodeMap` (`none` = 0xff) -/
def b64Val (url : Bool) (c : Char) : Option Nat :=
  let v := c.toNat
  if 65 ≤ v ∧ v ≤ 90 then some (v - 65)
  else if 97 ≤ v ∧ v ≤ 122 then some (v - 71)
  else if 48 ≤ v ∧ v ≤ 57 then some (v + 4)
  else if c = (if url then '-' else '+') then some 62
  else if c = (if url then '_' else '/') then some 63
  else none

/-- `Encoding.EncodeToString`; `url` selects the URL alphabet, `pad` the `=` padding. -/
def b64Encode (url pad : Bool) : Str → Str
  | a :: b :: c :: rest =>
    let n := byteOf a * 65536 + byteOf b * 256 + byteOf c
    b64Char url (n / 262144) :: b64Char url (n / 4096 % 64) :: b64Char url (n / 64 % 64)
      :: b64Char url (n % 64) :: b64Encode url pad rest
  | [a, b] =>
    let n := byteOf a * 65536 + byteOf b * 256
    b64Char url (n / 262144) :: b64Char url (n / 4096 % 64) :: b64Char url (n / 64 % 64)
      :: (if pad then ['='] else [])
  | [a] =>
    let n := byteOf a * 65536
    b64Char url (n / 262144) :: b64Char url (n / 4096 % 64) :: (if pad then ['=', '='] else [])
  | [] => []

def isCRLF (c : Char) : Bool := c = '\r' || c = '\n'

/-- `Decode` on an input from which CR/LF have already been removed. -/
def b64DecodeCore (url pad : Bool) : Str → Option Str
  | [] => some []
  | [_] => none
  | [a, b] =>
    match b64Val url a, b64Val url b with
    | some va, some vb =>
      if pad then none else some [Char.ofNat ((va * 64 + vb) / 16 % 256)]
    | _, _ => none
  | [a, b, c] =>
    match b64Val url a, b64Val url b, b64Val url c with
    | some va, some vb, some vc =>
      if pad then none
      else
        let n := va * 4096 + vb * 64 + vc
        some [Char.ofNat (n / 1024 % 256), Char.ofNat (n / 4 % 256)]
    | _, _, _ => none
  | a :: b :: c :: d :: rest =>
    match b64Val url a, b64Val url b with
    | some va, some vb =>
      match b64Val url c with
      | some vc =>
        match b64Val url d with
        | some vd =>
          let n := va * 262144 + vb * 4096 + vc * 64 + vd
          match b64DecodeCore url pad rest with
          | some t =>
            some (Char.ofNat (n / 65536 % 256) :: Char.ofNat (n / 256 % 256)
                    :: Char.ofNat (n % 256) :: t)
          | none => none
        | none =>
          if pad ∧ d = '=' ∧ rest = [] then
            let n := va * 4096 + vb * 64 + vc
            some [Char.ofNat (n / 1024 % 256), Char.ofNat (n / 4 % 256)]
          else none
      | none =>
        if pad ∧ c = '=' ∧ d = '=' ∧ rest = [] then
          some [Char.ofNat ((va * 64 + vb) / 16 % 256)]
        else none
    | _, _ => none

/-- `Encoding.DecodeString` (non-strict): `none` iff Go returns an error. -/
def b64Decode (url pad : Bool) (s : Str) : Option Str :=
  b64DecodeCore url pad (s.filter (fun c => !isCRLF c))

end O2P
