/-
  O2P.Model.CookieJar — the cookie session store's split / join logic and the browser jar.

  Go source modelled (pkg/sessions/cookie/session_store.go):
    makeSessionCookie, splitCookie, splitCookieName, copyCookie, loadCookie, joinCookies,
    Clear, and (through the abstraction below) pkg/cookies.MakeCookieFromOptions +
    net/http.(*Cookie).String.

  Abstraction of `len(c.String())`
  --------------------------------
  `(*http.Cookie).String()` renders `name=value` followed by an attribute suffix
  (`; Path=…; Domain=…; Max-Age=N; HttpOnly; Secure; SameSite=…`) that depends only on the
  attributes, which `copyCookie` copies verbatim to every part.  Hence, for a valid cookie
  name (non-empty RFC 6265 token) and a value over the alphabet that `sanitizeCookieValue`
  leaves untouched and unquoted (no space, comma, `"`, `;`, `\`, control or non-ASCII bytes —
  session values are base64url + digits + `|`),

      len(c.String()) = len(name) + 1 + len(value) + A

  where `A : Nat` is the length of the attribute suffix.  `A` and `maxCookieLength` are
  parameters of the model (the driver passes `maxCookieLength = 4000`, read from the source,
  and `A = len(c.String()) - len(name) - 1 - len(value)` measured on the real cookie).

  Core Lean only.
-/
import O2P.Basic

namespace O2P

/-- `len(c.String())` for a cookie with the given name and value whose attribute suffix has
    length `A`. -/
def cookieLen (A : Nat) (name value : Str) : Nat := name.length + 1 + value.length + A

/-- Go `splitCookieName`:
    ```
    splitName := fmt.Sprintf("%s_%d", name, count)
    overflow := len(splitName) - 256
    if overflow > 0 { splitName = fmt.Sprintf("%s_%d", name[:len(name)-overflow], count) }
    ```
    (`name[:len(name)-overflow]` could only panic if `1 + #digits(count) > 256`, impossible for
    a Go `int`; the model then takes the empty prefix.) -/
def splitCookieName (name : Str) (count : Nat) : Str :=
  let splitName := name ++ '_' :: natToStr count
  if splitName.length > 256 then
    let overflow := splitName.length - 256
    name.take (name.length - overflow) ++ '_' :: natToStr count
  else splitName

/-- The `for len(valueBytes) > 0 { … }` loop of Go `splitCookie`.
    `fuel` bounds the number of iterations (any `fuel ≥ rest.length` is enough, see
    `splitLoop_fuel`); `count` is the loop counter, `rest` is `valueBytes`.

    * `valueSize := len(valueBytes) - overflow` negative ⇒ `valueBytes[:valueSize]` panics;
    * `valueSize = 0` ⇒ the Go loop appends an empty part and retries with the next counter and
      the *same* bytes.  Part-name lengths never decrease with the counter, so nothing changes
      until the counter gains a digit; then, unless the part name is already capped at 256
      bytes, the name is one byte longer, `valueSize = -1` and the slice expression panics
      (observed on the real code: `slice bounds out of range [:-1]`).  When the name is capped
      the loop spins, appending empty cookies until memory is exhausted — reported as
      `.err "noProgress"`.  (Exact for counters with ≤ 255 digits, i.e. every Go `int`.) -/
def splitLoop (maxLen A : Nat) (name : Str) : Nat → Nat → Str → Outcome (List (Str × Str))
  | _, _, [] => .ok []
  | 0, _, _ :: _ => .err "fuel"
  | fuel + 1, count, rest@(_ :: _) =>
    let partName := splitCookieName name count
    let cookieLength := cookieLen A partName rest
    if cookieLength ≤ maxLen then .ok [(partName, rest)]
    else
      let overflow := cookieLength - maxLen
      if rest.length < overflow then .panic "slice bounds out of range"
      else
        let valueSize := rest.length - overflow
        if valueSize = 0 then
          if name.length + 1 + (natToStr count).length < 256 then
            .panic "slice bounds out of range"
          else .err "noProgress"
        else
          match splitLoop maxLen A name fuel (count + 1) (rest.drop valueSize) with
          | .ok ps => .ok ((partName, rest.take valueSize) :: ps)
          | e => e

/-- Go `splitCookie(c)` for a cookie `c` with `c.Name = name`, `c.Value = value`; the result is
    the list of (name, value) of the returned cookies (all other attributes are copied). -/
def splitCookie (maxLen A : Nat) (name value : Str) : Outcome (List (Str × Str)) :=
  if cookieLen A name value < maxLen then .ok [(name, value)]
  else splitLoop maxLen A name (value.length + 1) 0 value

/-- Go `makeSessionCookie` after signing: `value` is the signed value (`strValue`). -/
def makeSessionCookies (maxLen A : Nat) (name value : Str) : Outcome (List (Str × Str)) :=
  if cookieLen A name value > maxLen then splitCookie maxLen A name value
  else .ok [(name, value)]

/-! ### Browser jar -/

/-- A `Set-Cookie` header as far as the jar is concerned.  `del = true` means `Max-Age < 0` in
    the `http.Cookie` (serialised as `Max-Age=0`), which makes the browser delete the cookie. -/
structure SetCookie where
  name  : Str
  value : Str
  del   : Bool
  deriving DecidableEq, Repr

/-- Browser cookie jar restricted to one (path, domain): name ↦ value, one entry per name. -/
abbrev Jar := List (Str × Str)

/-- `req.Cookie(name)`: the first cookie with that name. -/
def jarGet : Jar → Str → Option Str
  | [], _ => none
  | (m, v) :: rest, n => if m = n then some v else jarGet rest n

def jarErase (jar : Jar) (n : Str) : Jar := jar.filter (fun p => p.1 ≠ n)

/-- insert, or replace in place (a replaced cookie keeps its creation time, RFC 6265 §5.3) -/
def jarSet : Jar → Str → Str → Jar
  | [], n, v => [(n, v)]
  | (m, w) :: rest, n, v => if m = n then (n, v) :: rest else (m, w) :: jarSet rest n v

def applySetCookie (jar : Jar) (c : SetCookie) : Jar :=
  if c.del then jarErase jar c.name else jarSet jar c.name c.value

/-- The browser processes the response's `Set-Cookie` headers in order. -/
def applySetCookies (jar : Jar) (cs : List SetCookie) : Jar := cs.foldl applySetCookie jar

/-! ### Load -/

/-- The `for err == nil { c, err = req.Cookie(splitCookieName(cookieName, count)) … }` loop of
    Go `loadCookie`: values of `name_count`, `name_{count+1}`, … until one is missing. -/
def collectParts (jar : Jar) (name : Str) : Nat → Nat → List Str
  | 0, _ => []
  | fuel + 1, count =>
    match jarGet jar (splitCookieName name count) with
    | none => []
    | some v => v :: collectParts jar name fuel (count + 1)

/-- Go `loadCookie` + `joinCookies`: (name, value) of the returned cookie, `none` for
    `http.ErrNoCookie`.  A single part is returned *unrenamed* (`joinCookies` returns
    `cookies[0]`).  Fuel `jar.length + 1` is always enough (`collectParts_fuel`). -/
def loadCookie (jar : Jar) (name : Str) : Option (Str × Str) :=
  match jarGet jar name with
  | some v => some (name, v)
  | none =>
    match collectParts jar name (jar.length + 1) 0 with
    | [] => none
    | [v] => some (splitCookieName name 0, v)
    | vs => some (name, vs.flatten)

/-! ### Store operations -/

def toSet (p : Str × Str) : SetCookie := ⟨p.1, p.2, false⟩

/-- What the pre-fix `Save` writes (and what a `Save` into a fresh browser writes): the cookies
    of `makeSessionCookie`, nothing else. -/
def save (maxLen A : Nat) (name signedValue : Str) : Outcome (List SetCookie) :=
  match makeSessionCookies maxLen A name signedValue with
  | .ok ps => .ok (ps.map toSet)
  | .err e => .err e
  | .panic e => .panic e

/-- Go `isSessionCookieName(name, candidate)` (since the fix "recognise truncated split-cookie
    names when clearing session cookies"):
    ```
    if candidate == name { return true }
    idx := strings.LastIndex(candidate, "_");  if idx < 0 { return false }
    count, err := strconv.Atoi(candidate[idx+1:]);  if err != nil || count < 0 { return false }
    return candidate == splitCookieName(name, count)
    ```
    `Atoi` accepts a sign and leading zeros, but then the comparison with the canonical
    `splitCookieName` result fails; range errors (beyond int64) are errors.  Effectively
    (`matchesSessionName_iff`): `candidate = name` or `candidate = splitCookieName name i` for
    some `0 ≤ i ≤ 2⁶³−1`. -/
def matchesSessionName (name n : Str) : Bool :=
  n == name ||
    match lastIndexOf '_' n with
    | none => false
    | some idx =>
      match atoi (n.drop (idx + 1)) with
      | none => false
      | some count => decide (0 ≤ count) && n == splitCookieName name count.toNat

/-- The matcher before that fix: the regular expression `^name(_\d+)?$` (`name` quoted):
    exactly `name`, or `name ++ "_" ++ digits` with at least one ASCII digit.  It does not
    recognise truncated part names (kept for the regression example in `O2P.Props.C10`). -/
def matchesSessionNameRegex (name n : Str) : Bool :=
  n == name ||
    (hasPrefix name n &&
      match n.drop name.length with
      | '_' :: ds => !ds.isEmpty && ds.all isDigit
      | _ => false)

/-- What `Clear` writes: a deletion for every presented cookie whose name matches. -/
def clearStore (name : Str) (presented : Jar) : List SetCookie :=
  (presented.filter (fun p => matchesSessionName name p.1)).map (fun p => ⟨p.1, [], true⟩)

/-- Fixed `Save` (repo commit "delete stale session cookies when the cookie store saves a
    session"): `setSessionCookie` first calls `clearCookiesExcept(rw, req, written)` — a
    deletion for every presented cookie accepted by `isSessionCookieName` whose name is not among the
    cookies about to be written, in the order presented — and then writes the cookies of
    `makeSessionCookie`.  (The names of deletions and writes are disjoint, so the order does
    not influence the resulting jar.) -/
def saveFixed (maxLen A : Nat) (name signedValue : Str) (presented : Jar) :
    Outcome (List SetCookie) :=
  match makeSessionCookies maxLen A name signedValue with
  | .ok ps =>
    let stale := presented.filter
      (fun p => matchesSessionName name p.1 && !(ps.map Prod.fst).contains p.1)
    .ok (stale.map (fun p => ⟨p.1, [], true⟩) ++ ps.map toSet)
  | .err e => .err e
  | .panic e => .panic e

/-- `Clear` on a response that ALREADY carries the `Set-Cookie` lines `written` (same request: a
    refresh saved the session, then validation failed; or a sign-out request that refreshed).  Since
    the fix "do not keep session cookies written earlier in the response when the cookie store
    clears the session" `dropWrittenSessionCookies` first removes every session cookie among them;
    then a deletion is written for every PRESENTED session cookie. -/
def clearAfter (name : Str) (written : List SetCookie) (presented : Jar) : List SetCookie :=
  written.filter (fun c => !matchesSessionName name c.name) ++ clearStore name presented

/-- the behaviour before that fix: what was written stays (kept for the regression witness) -/
def clearAfterOld (name : Str) (written : List SetCookie) (presented : Jar) : List SetCookie :=
  written ++ clearStore name presented

/-- `Load` up to signature validation / decoding. -/
def load (jar : Jar) (name : Str) : Option (Str × Str) := loadCookie jar name

/-! ### Histories -/

inductive JarOp where
  | save  : Str → JarOp
  | clear : JarOp
  /-- a save and a clear writing into ONE response (the browser presented the same jar to both) -/
  | saveClear : Str → JarOp
  deriving DecidableEq, Repr

/-- One request/response round trip: the browser presents `jar`, the store answers, the
    browser applies the `Set-Cookie` headers.  A failing `save` writes nothing. -/
def stepWith (saveFn : Str → Jar → Outcome (List SetCookie)) (name : Str) (jar : Jar) :
    JarOp → Jar
  | .save v =>
    match saveFn v jar with
    | .ok cs => applySetCookies jar cs
    | _ => jar
  | .clear => applySetCookies jar (clearStore name jar)
  | .saveClear v =>
    match saveFn v jar with
    | .ok cs => applySetCookies jar (clearAfter name cs jar)
    | _ => applySetCookies jar (clearStore name jar)

/-- history with the pre-fix `Save` (never deletes stale cookies) -/
def runCurrent (maxLen A : Nat) (name : Str) (ops : List JarOp) (jar : Jar) : Jar :=
  ops.foldl (stepWith (fun v _ => save maxLen A name v) name) jar

/-- history with the fixed `Save` -/
def runFixed (maxLen A : Nat) (name : Str) (ops : List JarOp) (jar : Jar) : Jar :=
  ops.foldl (stepWith (fun v j => saveFixed maxLen A name v j) name) jar

/-- what the browser should present after the history -/
def lastSaved (name : Str) (ops : List JarOp) : Option (Str × Str) :=
  match ops.getLast? with
  | some (.save v) => some (name, v)
  | _ => none

end O2P
