/-
  O2P.Model.Token — executable model of how oauth2-proxy turns an OIDC ID token into a session
  (property C04).

  Go sources modelled (repo @0f7befa + fix 26cea54):
    * pkg/providers/oidc/verifier.go      (*idTokenVerifier).Verify, verifyAudience, isValidAudience,
                                          interfaceSliceToString        → `verify`, `verifyAudience`, `audOf`
                                          (pre-fix 26cea54 version       → `verifyAudienceOld`, `audOfOld`)
    * pkg/providers/oidc/provider_verifier.go   toOIDCConfig: SkipClientIDCheck = true, so go-oidc checks
                                          signature / issuer (unless skipped) / expiry / well-formedness
                                          only: that verdict is the PARAMETER `Token.libOK`
    * pkg/providers/util/claim_extractor.go     GetClaim, getClaimFrom, parseJWT (the "≥ 2 segments" test),
                                          coerceClaim, toString, toStringSlice, cast.ToBool
                                          → `getClaim`, `getClaimFrom`, `tokenJson`, `toStr`, `toStrSlice`, `toBool`
    * providers/provider_data.go          verifyIDToken, buildSessionFromClaims, getClaimExtractor,
                                          getAuthorizationHeader        → `buildSession`, `effProfile`
    * providers/oidc.go                   createSession, Redeem, redeemRefreshToken, RefreshSession,
                                          CreateSessionFromToken, ValidateSession (token part)
                                          → `createSession`, `callbackSession`, `refreshSession`, `refreshRes`,
                                            `bearerOIDC`, `tokenVerifies`
    * pkg/apis/middleware/session.go      CreateTokenToSessionFunc      → `bearerExtra`, `typedDecode`
    * pkg/middleware/jwt_session.go       getJwtSession, findTokenFromHeader, getBasicToken;
      pkg/middleware/session_utils.go     splitAuthHeader, getBasicAuthCredentials
                                          → `getJwtSession`, `loaderChain`, `findToken`, `basicToken`

  Parameters (everything that is not this repository's decision logic):
    * `Token.libOK`    go-oidc's `(*IDTokenVerifier).Verify` verdict on the raw token (go-jose signature
                       check against the configured key set with the supported asymmetric algorithms,
                       issuer comparison unless skipped, `exp`/`nbf`, standard claims well-typed).
                       Its contract is the hypothesis `LibContract` of the soundness theorems.
    * `Token.payload`  what base64url + `encoding/json` (UseNumber) make of the second JWT segment.
    * `render`         `json.Marshal` of a decoded value (used when an array / object has to become a
                       string); shipped by the harness.
    * `rx`             verdict of the JWT-shape regular expression (a concrete reading, `jwtShape`, is
                       compared with the real engine by the suite).
    * `Profile`        the answer of the provider's profile endpoint.

  JSON values: `Json.num` keeps the literal text (`json.Number`).  A decoded JSON object is an
  association list; `encoding/json` keeps the LAST duplicate, the harness ships the decoded map
  (unique keys, sorted), `lookup` takes the first hit.

  Core Lean only.
-/
import O2P.Basic
import O2P.Model.Base64
import O2P.Model.Serve

namespace O2P.Tok

/-! ## JSON values -/

inductive Json where
  | null
  | bool (b : Bool)
  | num (text : Str)
  | str (s : Str)
  | arr (xs : List Json)
  | obj (kvs : List (Str × Json))
  deriving Inhabited, BEq, Repr

abbrev Claims := List (Str × Json)

/-- `m[key]` on a decoded JSON object -/
def lookup (k : Str) : Claims → Option Json
  | [] => none
  | (k', v) :: rest => if k' = k then some v else lookup k rest

/-- simplejson `(*Json).CheckGet` -/
def checkGet (key : Str) : Json → Option Json
  | .obj kvs => lookup key kvs
  | _ => none

/-- simplejson `(*Json).Get`: a missing key and a non-object both give `Json{nil}` -/
def Json.get (key : Str) (j : Json) : Json := (checkGet key j).getD .null

/-- simplejson `(*Json).GetPath` -/
def getPath : List Str → Json → Json
  | [], j => j
  | p :: ps, j => getPath ps (j.get p)

/-- `value != nil` -/
def Json.nonNull : Json → Option Json
  | .null => none
  | j => some j

/-- `getClaimFrom(claim, src)`: the claim as a literal key first, then as a dotted path;
    JSON `null` counts as absent. -/
def getClaimFrom (claim : Str) (src : Json) : Option Json :=
  match checkGet claim src with
  | some v => v.nonNull
  | none => (getPath (splitOn '.' claim) src).nonNull

/-! ## coercions (coerceClaim) -/

/-- `toString`: `cast.ToStringE`, and `json.Marshal` for what cast cannot convert (arrays, objects) -/
def toStr (render : Json → Str) : Json → Str
  | .str s => s
  | .bool b => if b then "true".toList else "false".toList
  | .num t => t
  | .null => []
  | j => render j

/-- `toStringSlice` -/
def toStrSlice (render : Json → Str) : Json → List Str
  | .arr xs => xs.map (toStr render)
  | .null => []
  | j => [toStr render j]

/-- cast's `trimZeroDecimal` on the reversed string: `some rest` = cut here -/
def tzdRev (found : Bool) : Str → Option Str
  | [] => none
  | c :: rest =>
    if c = '.' then (if found then some rest else tzdRev found rest)
    else if c = '0' then tzdRev true rest
    else none

def trimZeroDecimal (s : Str) : Str :=
  match tzdRev false s.reverse with
  | some r => r.reverse
  | none => s

/-- `strconv.ParseBool(s)` returned `true` -/
def parseBoolTrue (s : Str) : Bool :=
  s = "1".toList || s = "t".toList || s = "T".toList || s = "TRUE".toList || s = "true".toList || s = "True".toList

/-- `cast.ToBool`.  For a `json.Number` cast calls `strconv.ParseInt(trimZeroDecimal(text), 0, 0)`;
    on JSON number literals (no leading zeros, no base prefixes, no underscores) base 0 is base 10,
    i.e. `O2P.atoi`.  Conversion errors are discarded by `ToBool` ⇒ `false`. -/
def toBool : Json → Bool
  | .bool b => b
  | .str s => parseBoolTrue s
  | .num t =>
    match atoi (trimZeroDecimal t) with
    | some v => decide (v ≠ 0)
    | none => false
  | _ => false

/-! ## the claim extractor -/

/-- what the profile endpoint delivers when it is consulted -/
inductive Profile where
  /-- request error, status ≠ 200, or a body that is not JSON -/
  | failed
  /-- the decoded body -/
  | body (j : Json)
  deriving Inhabited

/-- `simplejson.New()`: no profile URL, `SkipClaimsFromProfileURL`, or no access token to present -/
def Profile.empty : Profile := .body (.obj [])

inductive Err where
  | missingIDToken   -- token response without id_token on the callback path
  | verify           -- Verifier.Verify failed (library verdict or audience)
  | parse            -- the claim extractor could not parse the token
  | profile          -- the profile endpoint had to be consulted and failed
  | unverified       -- e-mail marked unverified
  | typed            -- typed claim decoding failed (extra JWT issuers)
  deriving DecidableEq, Repr, Inhabited

/-- `(*claimExtractor).GetClaim`: token first; the profile is loaded (lazily) only when the token
    lacks the claim. -/
def getClaim (tok : Json) (prof : Profile) (claim : Str) : Except Err (Option Json) :=
  if claim = [] then .ok none
  else match getClaimFrom claim tok with
    | some v => .ok (some v)
    | none =>
      match prof with
      | .failed => .error .profile
      | .body p => .ok (getClaimFrom claim p)

/-- the value a claim resolves to (a failed profile contributes nothing) -/
def resolve (tok : Json) (prof : Profile) (claim : Str) : Option Json :=
  if claim = [] then none
  else match getClaimFrom claim tok with
    | some v => some v
    | none =>
      match prof with
      | .failed => none
      | .body p => getClaimFrom claim p

/-! ## audience (pkg/providers/oidc/verifier.go) -/

/-- `interfaceSliceToString`: every entry must be a string -/
def allStrs : List Json → Option (List Str)
  | [] => some []
  | .str s :: rest => (allStrs rest).map (s :: ·)
  | _ :: _ => none

/-- the audience list denoted by a claim value: a string or a list of strings, nothing else -/
def audOf : Json → Option (List Str)
  | .str s => some [s]
  | .arr xs => allStrs xs
  | _ => none

/-- `verifyAudience` (after fix 26cea54): the first EXISTING audience claim decides (a claim whose
    value is `null` exists). -/
def verifyAudience (audClaims allowed : List Str) (claims : Claims) : Outcome Unit :=
  match audClaims with
  | [] => .err "audience claims do not exist in claims"
  | c :: cs =>
    match lookup c claims with
    | some v =>
      match audOf v with
      | some aud =>
        if aud.any (fun a => allowed.contains a) then .ok ()
        else .err "audience does not match any allowed audience"
      | none => .err "audience claim holds an unsupported type"
    | none => verifyAudience cs allowed claims

/-- pre-fix conversion: unchecked `.(string)` assertions -/
def audOfOld : Json → Outcome (List Str)
  | .arr xs =>
    match allStrs xs with
    | some l => .ok l
    | none => .panic "interface conversion: interface {} is not string"
  | .null => .err "audience claim holds unsupported type <nil>"
  | .str s => .ok [s]
  | _ => .panic "interface conversion: interface {} is not string"

/-- `verifyAudience` before fix 26cea54 (kept for the regression example) -/
def verifyAudienceOld (audClaims allowed : List Str) (claims : Claims) : Outcome Unit :=
  match audClaims with
  | [] => .err "audience claims do not exist in claims"
  | c :: cs =>
    match lookup c claims with
    | some v =>
      match audOfOld v with
      | .ok aud =>
        if aud.any (fun a => allowed.contains a) then .ok ()
        else .err "audience does not match any allowed audience"
      | .err e => .err e
      | .panic e => .panic e
    | none => verifyAudienceOld cs allowed claims

structure VerifierCfg where
  audClaims : List Str := ["aud".toList]
  clientID : Str
  extraAudiences : List Str := []
  deriving Repr

/-- `NewVerifier`: `allowedAudiences` = client id + extra audiences -/
def VerifierCfg.allowed (vc : VerifierCfg) : List Str := vc.clientID :: vc.extraAudiences

/-! ## tokens -/

structure Token where
  /-- the compact serialisation as received -/
  raw : Str
  /-- go-oidc's verdict (parameter; contract = `LibContract`) -/
  libOK : Bool
  /-- base64url + JSON decoding of the second segment (`none` = error) -/
  payload : Option Json
  /-- `idToken.Expiry` (ns since the epoch) -/
  expiry : Int := 0

/-- `parseJWT` + `simplejson.NewJson`: at least two '.'-separated segments, then the payload decode -/
def tokenJson (t : Token) : Option Json :=
  if (splitOn '.' t.raw).length < 2 then none else t.payload

/-- `(*idTokenVerifier).Verify` -/
def verify (vc : VerifierCfg) (t : Token) : Outcome Unit :=
  if !t.libOK then .err "failed to verify token"
  else match tokenJson t with
    | some (.obj kvs) => verifyAudience vc.audClaims vc.allowed kvs
    | _ => .err "failed to parse default id_token claims"

/-- the token part of `OIDCProvider.ValidateSession` (Layer A's `Env.tokenVerifies`) -/
def tokenVerifies (vc : VerifierCfg) (t : Token) : Bool :=
  match verify vc t with
  | .ok _ => true
  | _ => false

def isSpaceASCII (c : Char) : Bool :=
  c = ' ' || c = '\t' || c = '\n' || c = '\r' || c = Char.ofNat 11 || c = Char.ofNat 12

/-- `strings.TrimSpace(raw) == ""` (ASCII white space; the UTF-8 encoded Unicode spaces are not
    modelled — such a token has no '.', so every path rejects it either way) -/
def isBlank (raw : Str) : Bool := raw.all isSpaceASCII

/-! ## buildSessionFromClaims -/

structure Cfg where
  verifier : VerifierCfg
  /-- `p.UserClaim` (always "sub" for the OIDC provider) -/
  userClaim : Str := "sub".toList
  /-- `p.EmailClaim` (after the deprecated user-id-claim override) -/
  emailClaim : Str := "email".toList
  groupsClaim : Str := "groups".toList
  allowUnverified : Bool := false
  /-- a profile URL is configured and `SkipClaimsFromProfileURL` is off -/
  profileEnabled : Bool := true
  deriving Repr

def strOf (render : Json → Str) (v : Option Json) : Str := (v.map (toStr render)).getD []
def strsOf (render : Json → Str) (v : Option Json) : List Str := (v.map (toStrSlice render)).getD []

/-- `verifyEmail` -/
def Cfg.verifyEmail (cfg : Cfg) : Bool := cfg.emailClaim = "email".toList && !cfg.allowUnverified

/-- `buildSessionFromClaims(rawIDToken, accessToken)` for a non-empty, parseable token whose payload
    is `tok`; `prof` = what the extractor's profile lookup would deliver. -/
def buildSession (cfg : Cfg) (render : Json → Str) (tok : Json) (prof : Profile) : Except Err Session :=
  match getClaim tok prof cfg.userClaim with
  | .error e => .error e
  | .ok user =>
  match getClaim tok prof cfg.emailClaim with
  | .error e => .error e
  | .ok email =>
  match getClaim tok prof cfg.groupsClaim with
  | .error e => .error e
  | .ok groups =>
  match getClaim tok prof "preferred_username".toList with
  | .error e => .error e
  | .ok pu =>
    let ss : Session := { user := strOf render user, email := strOf render email,
                          groups := strsOf render groups, preferredUsername := strOf render pu }
    if cfg.verifyEmail then
      match getClaim tok prof "email_verified".toList with
      | .error e => .error e
      | .ok none => .ok ss
      | .ok (some v) => if toBool v then .ok ss else .error .unverified
    else .ok ss

/-- `getClaimExtractor` + `getAuthorizationHeader` + `loadProfileClaims`: the profile endpoint is
    asked only with a profile URL, without `SkipClaimsFromProfileURL`, and with an access token -/
def effProfile (cfg : Cfg) (accessToken : Str) (prof : Profile) : Profile :=
  if cfg.profileEnabled && !accessToken.isEmpty then prof else Profile.empty

/-! ## entry paths -/

/-- the token endpoint's answer as `oauth2.Token` presents it -/
structure TokenResp where
  /-- `getIDToken`: `raw = []` when there is no (string) id_token -/
  idToken : Token
  accessToken : Str := []
  refreshToken : Str := []
  /-- `token.Expiry` (0 = zero time) -/
  expiry : Int := 0

/-- `createSession(ctx, token, refresh)` -/
def createSession (cfg : Cfg) (render : Json → Str) (refresh : Bool) (r : TokenResp) (prof : Profile)
    (now : Int) : Except Err Session :=
  let t := r.idToken
  let verified : Except Err Unit :=
    if isBlank t.raw then (if refresh then .ok () else .error .missingIDToken)
    else match verify cfg.verifier t with
      | .ok _ => .ok ()
      | _ => .error .verify
  match verified with
  | .error e => .error e
  | .ok _ =>
    let built : Except Err Session :=
      if t.raw = [] then .ok {}
      else match tokenJson t with
        | none => .error .parse
        | some j => buildSession cfg render j (effProfile cfg r.accessToken prof)
    match built with
    | .error e => .error e
    | .ok ss =>
      .ok { ss with accessToken := r.accessToken, refreshToken := r.refreshToken, idToken := t.raw,
                    createdAt := some now, expiresOn := some r.expiry }

/-- `Redeem` after the code exchange -/
def callbackSession (cfg : Cfg) (render : Json → Str) (r : TokenResp) (prof : Profile) (now : Int) :
    Except Err Session :=
  createSession cfg render false r prof now

/-- `redeemRefreshToken` after the token request: identity is replaced only when the response
    carried an ID token; tokens and timestamps always are. -/
def refreshSession (cfg : Cfg) (render : Json → Str) (old : Session) (r : TokenResp) (prof : Profile)
    (now : Int) : Except Err Session :=
  match createSession cfg render true r prof now with
  | .error e => .error e
  | .ok n =>
    let s1 : Session :=
      if n.idToken ≠ [] then
        { old with idToken := n.idToken, email := n.email, user := n.user, groups := n.groups,
                   preferredUsername := n.preferredUsername }
      else old
    .ok { s1 with accessToken := n.accessToken, refreshToken := n.refreshToken,
                  createdAt := n.createdAt, expiresOn := n.expiresOn }

/-- `RefreshSession` as Layer A sees it (`Env.refresh`); `resp = none`: the token request failed -/
def refreshRes (cfg : Cfg) (render : Json → Str) (old : Session) (resp : Option TokenResp) (prof : Profile)
    (now : Int) : RefreshRes :=
  if old.refreshToken = [] then .notRefreshed
  else match resp with
    | none => .err
    | some r =>
      match refreshSession cfg render old r prof now with
      | .ok s => .refreshed s
      | .error _ => .err

/-- `CreateSessionFromToken` (the provider's bearer loader): no access token ⇒ no profile lookup;
    an empty e-mail falls back to the user. -/
def bearerOIDC (cfg : Cfg) (render : Json → Str) (t : Token) (now : Int) : Except Err Session :=
  match verify cfg.verifier t with
  | .ok _ =>
    (match tokenJson t with
     | none => .error .parse
     | some j =>
       match buildSession cfg render j Profile.empty with
       | .error e => .error e
       | .ok ss =>
         .ok { ss with email := if ss.email = [] then ss.user else ss.email,
                       accessToken := t.raw, idToken := t.raw, refreshToken := [],
                       createdAt := some now, expiresOn := some t.expiry })
  | _ => .error .verify

/-! ### extra JWT issuers: typed decoding (pkg/apis/middleware/session.go) -/

/-- `string` field: absent / null leave "", a JSON string is taken, anything else is an error -/
def typedStr : Option Json → Option Str
  | none => some []
  | some .null => some []
  | some (.str s) => some s
  | some _ => none

/-- `*bool` field -/
def typedBoolPtr : Option Json → Option (Option Bool)
  | none => some none
  | some .null => some none
  | some (.bool b) => some (some b)
  | some _ => none

def typedStrElems : List Json → Option (List Str)
  | [] => some []
  | .str s :: rest => (typedStrElems rest).map (s :: ·)
  | .null :: rest => (typedStrElems rest).map ([] :: ·)
  | _ :: _ => none

/-- `[]string` field -/
def typedStrs : Option Json → Option (List Str)
  | none => some []
  | some .null => some []
  | some (.arr xs) => typedStrElems xs
  | some _ => none

structure TypedClaims where
  subject : Str
  email : Str
  verified : Option Bool
  preferredUsername : Str
  groups : List Str
  deriving DecidableEq, Repr

/-- `idToken.Claims(&claims)` into the typed struct.  Keys are matched exactly: `encoding/json`'s
    case-insensitive fallback (a key such as "EMAIL") is not modelled. -/
def typedDecode (kvs : Claims) : Option TypedClaims :=
  match typedStr (lookup "sub".toList kvs), typedStr (lookup "email".toList kvs),
        typedBoolPtr (lookup "email_verified".toList kvs),
        typedStr (lookup "preferred_username".toList kvs), typedStrs (lookup "groups".toList kvs) with
  | some sub, some email, some ver, some pu, some gs =>
    some { subject := sub, email := email, verified := ver, preferredUsername := pu, groups := gs }
  | _, _, _, _, _ => none

/-- the loader built by `CreateTokenToSessionFunc(verifier.Verify)` for an extra issuer whose
    verifier is configured by `vc` (client id = the audience given with the issuer) -/
def bearerExtra (vc : VerifierCfg) (t : Token) : Except Err Session :=
  match verify vc t with
  | .ok _ =>
    (match tokenJson t with
     | some (.obj kvs) =>
       (match typedDecode kvs with
        | none => .error .typed
        | some c =>
          let email := if c.email = [] then c.subject else c.email
          if c.verified = some false then .error .unverified
          else .ok { email := email, user := c.subject, groups := c.groups,
                     preferredUsername := c.preferredUsername, accessToken := t.raw, idToken := t.raw,
                     refreshToken := [], expiresOn := some t.expiry })
     | _ => .error .parse)
  | _ => .error .verify

/-! ## the JWT session loader (pkg/middleware/jwt_session.go) -/

/-- `getJwtSession`'s loop: the first loader that succeeds wins -/
def loaderChain : List (Str → Except Err Session) → Str → Option Session
  | [], _ => none
  | l :: ls, tok =>
    match l tok with
    | .ok s => some s
    | .error _ => loaderChain ls tok

/-- `getBasicToken`: a JWT as the user name (password empty or "x-oauth-basic") or as the password -/
def basicToken (rx : Str → Bool) (b64 : Str) : Option Str :=
  match b64Decode false true b64 with
  | none => none
  | some cred =>
    match splitFirst ':' cred with
    | (_, none) => none
    | (user, some pw) =>
      if rx user then (if pw = "x-oauth-basic".toList || pw = [] then some user else none)
      else if rx pw then some pw
      else none

/-- `findTokenFromHeader` -/
def findToken (rx : Str → Bool) (header : Str) : Option Str :=
  match splitOn ' ' header with
  | [ty, tok] =>
    if ty = "Bearer".toList && rx tok then some tok
    else if ty = "Basic".toList then basicToken rx tok
    else none
  | _ => none

/-- `getJwtSession` -/
def getJwtSession (rx : Str → Bool) (loaders : List (Str → Except Err Session)) (header : Str) : Option Session :=
  if header = [] then none
  else match findToken rx header with
    | none => none
    | some tok => loaderChain loaders tok

/-- the loader list of `buildSessionChain`: the provider first, then one per extra issuer.
    `asMain` / the second components say how each verifier's library judges a raw token. -/
def jwtLoaders (cfg : Cfg) (render : Json → Str) (now : Int) (asMain : Str → Token)
    (extras : List (VerifierCfg × (Str → Token))) : List (Str → Except Err Session) :=
  (fun raw => bearerOIDC cfg render (asMain raw) now) :: extras.map (fun e => fun raw => bearerExtra e.1 (e.2 raw))

/-! ## a concrete reading of the JWT-shape regular expression
    `^ey[a-zA-Z0-9_-]*\.ey[a-zA-Z0-9_-]*\.[a-zA-Z0-9_-]+$` -/

def isB64UrlChar (c : Char) : Bool :=
  ('a' ≤ c && c ≤ 'z') || ('A' ≤ c && c ≤ 'Z') || ('0' ≤ c && c ≤ '9') || c = '_' || c = '-'

def jwtShape (s : Str) : Bool :=
  match splitOn '.' s with
  | [h, p, sig] =>
    hasPrefix "ey".toList h && h.all isB64UrlChar &&
    hasPrefix "ey".toList p && p.all isB64UrlChar &&
    !sig.isEmpty && sig.all isB64UrlChar
  | _ => false

end O2P.Tok
