/-
  O2P.Model.NetSet — executable model of oauth2-proxy's trusted-IP network set

    /repo/pkg/ip/net_set.go        NetSet, NewNetSet, Has, AddIPNet, getNetMaps, ipNetMap.has
    /repo/pkg/ip/parse_ip_net.go   ParseIPNet

  together with the parts of Go's `net` package they rely on (go1.23 `src/net/ip.go`):
  `IP.To4`, `IP.To16`, `IP.Mask`, `IP.Equal`, `IP.String` (as map key), `CIDRMask`,
  `IPMask.Size`, `ParseCIDR` (numeric part), and `IPNet.Contains` (used as the *specification*
  of "address lies inside network").

  Core Lean only (linked into the driver).

  Representation
  * `RawIP` is a Go `net.IP` byte slice, by length: 4 bytes, 16 bytes, or "anything else"
    (`malformed`: nil or a slice whose length is neither 4 nor 16; all Go functions used here
    look only at the length of such a slice).  Bytes are big-endian, i.e. byte 0 is the most
    significant byte of the `BitVec`; `ip[12:16]` of a 16-byte address is the low 32 bits and
    `ip[0:12]` the high 96 bits.
  * `IPMask` is a Go `net.IPMask` at the bit level (4 or 16 bytes of arbitrary bits).  The masks
    that actually occur are produced by `cidrMask` (= `net.CIDRMask`).
  * The Go map key `ip.String()` is modelled by `RawIP.key`, the canonical normalised address
    (4-byte form when `To4` succeeds, the 16 bytes otherwise).
    MODELLING ASSUMPTION ("String is injective on normalised addresses"): for addresses of
    length 4 or 16, `x.String() == y.String()` iff `x.key = y.key`.  (Dotted-quad rendering is
    injective on 4 bytes, RFC 5952 rendering is injective on 16 bytes, and the two never
    collide because only the latter contains ':'.)
  * A Go `map[string]bool` used as a set is a duplicate-free `List` of keys.
-/
import O2P.Basic

namespace O2P

/-! ## net.IP -/

/-- A Go `net.IP` value classified by `len`. -/
inductive RawIP where
  /-- `len(ip) == 4` -/
  | ip4 (b : BitVec 32)
  /-- `len(ip) == 16` -/
  | ip16 (b : BitVec 128)
  /-- `nil`, or any slice with `len ∉ {4,16}` -/
  | malformed
  deriving DecidableEq, Repr

/-- `ip[0:12]` of a 16-byte address -/
def hi96 (b : BitVec 128) : BitVec 96 := b.extractLsb' 32 96
/-- `ip[12:16]` of a 16-byte address -/
def lo32 (b : BitVec 128) : BitVec 32 := b.extractLsb' 0 32

/-- `v4InV6Prefix = 00 00 00 00 00 00 00 00 00 00 ff ff` -/
def v4InV6Prefix : BitVec 96 := 0xffff#96

/-- `isZeros(ip[0:10]) && ip[10]==0xff && ip[11]==0xff`, equivalently
    `bytealg.Equal(ip[:12], v4InV6Prefix)` -/
def isMapped (b : BitVec 128) : Bool := hi96 b == v4InV6Prefix

/-- `net.IPv4(a,b,c,d)`: the 16-byte IPv4-mapped form `::ffff:a.b.c.d` -/
def mapped (a : BitVec 32) : BitVec 128 := (v4InV6Prefix ++ a).setWidth 128

namespace RawIP

/-- `ip.To4()`; `none` is Go's `nil`. -/
def to4 : RawIP → Option (BitVec 32)
  | ip4 a => some a
  | ip16 b => if isMapped b then some (lo32 b) else none
  | malformed => none

/-- `ip.To16()`; `none` is Go's `nil`. -/
def to16 : RawIP → Option (BitVec 128)
  | ip4 a => some (mapped a)
  | ip16 b => some b
  | malformed => none

/-- `ip.Equal(x)`.  Exact whenever at least one side has length 4 or 16 (always the case in
    `ParseIPNet`, whose right-hand side is a 16-byte `ParseCIDR` result); two malformed slices
    are reported unequal (Go would compare their bytes if the lengths agree). -/
def equal : RawIP → RawIP → Bool
  | ip4 a, ip4 b => a == b
  | ip16 a, ip16 b => a == b
  | ip4 a, ip16 b => isMapped b && a == lo32 b
  | ip16 a, ip4 b => isMapped a && lo32 a == b
  | _, _ => false

/-- The map key `ip.String()`, modelled as the canonical normalised address. -/
def key : RawIP → RawIP
  | ip4 a => ip4 a
  | ip16 b => if isMapped b then ip4 (lo32 b) else ip16 b
  | malformed => malformed

end RawIP

/-! ## net.IPMask -/

/-- A Go `net.IPMask` of length 4 or 16 (bit level). -/
inductive IPMask where
  | m4 (b : BitVec 32)
  | m16 (b : BitVec 128)
  deriving DecidableEq, Repr

/-- `ones` one-bits followed by zero-bits, `w` bits wide (`ones ≤ w`). -/
def cidrBits (w ones : Nat) : BitVec w := BitVec.allOnes w <<< (w - ones)

/-- `net.CIDRMask(ones, bits)`; `none` is Go's `nil` (bits ∉ {32,128} or ones > bits). -/
def cidrMask (ones bits : Nat) : Option IPMask :=
  if bits = 32 then (if ones ≤ 32 then some (.m4 (cidrBits 32 ones)) else none)
  else if bits = 128 then (if ones ≤ 128 then some (.m16 (cidrBits 128 ones)) else none)
  else none

/-- number of leading one-bits among the top `i` … counting down from bit `i-1` -/
def leadingOnesFrom {w : Nat} (b : BitVec w) : Nat → Nat
  | 0 => 0
  | i + 1 => if b.getLsbD i then leadingOnesFrom b i + 1 else 0

/-- number of leading (most significant) one-bits -/
def leadingOnes {w : Nat} (b : BitVec w) : Nat := leadingOnesFrom b w

/-- `simpleMaskLength` followed by the `-1 → 0` adjustment of `IPMask.Size`: the number of
    leading ones if the mask is ones-then-zeros, and 0 otherwise. -/
def maskOnes {w : Nat} (b : BitVec w) : Nat :=
  let n := leadingOnes b
  if b = cidrBits w n then n else 0

namespace IPMask

/-- `ones, _ := m.Size()` -/
def size : IPMask → Nat
  | m4 b => maskOnes b
  | m16 b => maskOnes b

def is16 : IPMask → Bool
  | m4 _ => false
  | m16 _ => true

end IPMask

/-- `allFF(mask[:12])` -/
def allFF12 (m : BitVec 128) : Bool := hi96 m == BitVec.allOnes 96

/-- first line of `IP.Mask`:
    `if len(mask)==16 && len(ip)==4 && allFF(mask[:12]) { mask = mask[12:] }` -/
def maskAdaptMask (ip : RawIP) (m : IPMask) : IPMask :=
  match m, ip with
  | .m16 mb, .ip4 _ => if allFF12 mb then .m4 (lo32 mb) else m
  | _, _ => m

/-- second line of `IP.Mask` (`m1` is the mask after the first line):
    `if len(mask)==4 && len(ip)==16 && bytealg.Equal(ip[:12], v4InV6Prefix) { ip = ip[12:] }` -/
def maskAdaptIP (ip : RawIP) (m1 : IPMask) : RawIP :=
  match m1, ip with
  | .m4 _, .ip16 b => if isMapped b then .ip4 (lo32 b) else ip
  | _, _ => ip

/-- rest of `IP.Mask`: `n := len(ip); if n != len(mask) { return nil }; out[i] = ip[i] & mask[i]` -/
def maskApply : RawIP → IPMask → RawIP
  | .ip4 b, .m4 mb => .ip4 (b &&& mb)
  | .ip16 b, .m16 mb => .ip16 (b &&& mb)
  | _, _ => .malformed

/-- `ip.Mask(mask)`; Go's `nil` result is `malformed`.  Follows the Go code line by line. -/
def RawIP.mask (ip : RawIP) (m : IPMask) : RawIP :=
  let m1 := maskAdaptMask ip m
  maskApply (maskAdaptIP ip m1) m1

/-! ## net.IPNet and the specification `Contains` -/

/-- Go `net.IPNet` -/
structure IPNet where
  ip : RawIP
  mask : IPMask
  deriving DecidableEq, Repr

/-- result of `networkNumberAndMask` -/
inductive NetNum where
  | n4 (ip m : BitVec 32)
  | n16 (ip m : BitVec 128)
  | none                      -- `nil, nil`
  deriving DecidableEq, Repr

/-- `networkNumberAndMask(n)` -/
def IPNet.networkNumberAndMask (n : IPNet) : NetNum :=
  match n.ip.to4 with
  | some a =>
    match n.mask with
    | .m4 m => .n4 a m
    | .m16 m => .n4 a (lo32 m)          -- `m = m[12:]`
  | none =>
    match n.ip with
    | .ip16 b =>
      match n.mask with
      | .m4 _ => .none                   -- `len(ip) != IPv4len`
      | .m16 m => .n16 b m
    | _ => .none                         -- `len(ip) != IPv6len`

/-- `n.Contains(ip)` — the independent notion of "address `ip` lies inside network `n`".
    Exact for every `ip` of length 4 or 16.  (For a malformed `ip` Go returns `false` except
    in the degenerate case `len(ip)=0` with a network number that is itself `nil`; the model
    returns `false` throughout.) -/
def IPNet.contains (n : IPNet) (ip : RawIP) : Bool :=
  let ip' : RawIP := match ip.to4 with | some a => .ip4 a | none => ip
  match n.networkNumberAndMask, ip' with
  | .n4 nn m, .ip4 x => nn &&& m == x &&& m
  | .n16 nn m, .ip16 x => nn &&& m == x &&& m
  | _, _ => false

/-- the mask is ones-then-zeros, i.e. a `CIDRMask` value -/
def IPMask.canonical : IPMask → Bool
  | .m4 b => b == cidrBits 32 (leadingOnes b)
  | .m16 b => b == cidrBits 128 (leadingOnes b)

/-- The networks `ParseIPNet` can return (`parseIPNetSem_wf`): the mask is a CIDR mask and
    masking the network address with it is defined and gives the same address back
    (`IP.Equal`), i.e. the mask fits the address family and no host bit is set. -/
def WellFormedNet (n : IPNet) : Prop :=
  n.mask.canonical = true ∧ (n.ip.mask n.mask).equal n.ip = true

instance : DecidablePred WellFormedNet :=
  fun _ => inferInstanceAs (Decidable (_ = true ∧ _ = true))

/-! ## NetSet -/

/-- `ipNetMap`: hash-set of the networks that share one mask -/
structure IPNetMap where
  mask : IPMask
  ips : List RawIP          -- key set of `map[string]bool`
  deriving DecidableEq, Repr

/-- which of the two slices `getNetMaps` selected -/
inductive Family where
  | v4 | v6
  deriving DecidableEq, Repr

structure NetSet where
  ip4NetMaps : List IPNetMap
  ip6NetMaps : List IPNetMap
  deriving DecidableEq, Repr

/-- set insertion (`m[k] = true`) -/
def setInsert (k : RawIP) (ks : List RawIP) : List RawIP :=
  if ks.contains k then ks else ks ++ [k]

/-- index of the first `ipNetMap` whose mask has `ones` one-bits (the search loop of `AddIPNet`) -/
def findOnes (ones : Nat) : List IPNetMap → Option Nat
  | [] => none
  | m :: ms => if m.mask.size = ones then some 0 else (findOnes ones ms).map (· + 1)

/-- `netMap.ips[k] = true` on the `i`-th map -/
def insertAt (k : RawIP) : Nat → List IPNetMap → List IPNetMap
  | _, [] => []
  | 0, m :: ms => { m with ips := setInsert k m.ips } :: ms
  | i + 1, m :: ms => m :: insertAt k i ms

namespace NetSet

/-- `NewNetSet()` -/
def empty : NetSet := ⟨[], []⟩

def maps (w : NetSet) : Family → List IPNetMap
  | .v4 => w.ip4NetMaps
  | .v6 => w.ip6NetMaps

def setMaps (w : NetSet) : Family → List IPNetMap → NetSet
  | .v4, l => { w with ip4NetMaps := l }
  | .v6, l => { w with ip6NetMaps := l }

/-- `getNetMaps(ip)`: panics when `ip` is neither 4-byte nor 16-byte. -/
def getNetMaps (ip : RawIP) : Outcome Family :=
  if ip.to4.isSome then .ok .v4
  else if ip.to16.isSome then .ok .v6
  else .panic "IP is neither 4-byte nor 16-byte?"

/-- `AddIPNet` with an explicit recursion budget (Go recurses after appending a fresh map). -/
def addIPNetFuel : Nat → NetSet → IPNet → Outcome NetSet
  | 0, _, _ => .err "AddIPNet: recursion budget exhausted"
  | fuel + 1, w, n =>
    match getNetMaps n.ip with
    | .panic s => .panic s
    | .err s => .err s
    | .ok fam =>
      let netMaps := w.maps fam
      let ones := n.mask.size
      match findOnes ones netMaps with
      | some i => .ok (w.setMaps fam (insertAt n.ip.key i netMaps))
      | none =>
        addIPNetFuel fuel (w.setMaps fam (netMaps ++ [{ mask := n.mask, ips := [] }])) n

/-- `w.AddIPNet(ipNet)`; Go recurses at most once, so a budget of 2 is always enough
    (`addIPNet_ne_err` in `O2P.Lemmas.NetSet`). -/
def addIPNet (w : NetSet) (n : IPNet) : Outcome NetSet := addIPNetFuel 2 w n

/-- add all networks, left to right, starting from `w` -/
def addAll : NetSet → List IPNet → Outcome NetSet
  | w, [] => .ok w
  | w, n :: ns =>
    match addIPNet w n with
    | .ok w' => addAll w' ns
    | .err s => .err s
    | .panic s => .panic s

/-- `NewNetSet()` followed by `AddIPNet` for every network -/
def build (nets : List IPNet) : Outcome NetSet := addAll empty nets

end NetSet

/-- `ipNetMap.has(ip)`: panics when the mask cannot be applied. -/
def IPNetMap.has (m : IPNetMap) (ip : RawIP) : Outcome Bool :=
  match ip.mask m.mask with
  | .malformed => .panic "Mismatch in net.IPMask and net.IP protocol version"
  | masked => .ok (m.ips.contains masked.key)

/-- the `for _, netMap := range *netMaps` loop of `Has` -/
def hasLoop (ip : RawIP) : List IPNetMap → Outcome Bool
  | [] => .ok false
  | m :: ms =>
    match m.has ip with
    | .ok true => .ok true
    | .ok false => hasLoop ip ms
    | .err s => .err s
    | .panic s => .panic s

namespace NetSet

/-- `w.Has(ip)` -/
def has (w : NetSet) (ip : RawIP) : Outcome Bool :=
  match getNetMaps ip with
  | .panic s => .panic s
  | .err s => .err s
  | .ok fam => hasLoop ip (w.maps fam)

/-- build the set from `nets`, then look `ip` up -/
def lookup (nets : List IPNet) (ip : RawIP) : Outcome Bool :=
  match build nets with
  | .ok w => w.has ip
  | .err s => .err s
  | .panic s => .panic s

end NetSet

/-! ## ParseIPNet on already-parsed numeric input -/

/-- `net.ParseIP` of a textual IPv4 address: always the 16-byte mapped form -/
def parseIP4 (a : BitVec 32) : RawIP := .ip16 (mapped a)
/-- `net.ParseIP` of a textual IPv6 address (including `::ffff:a.b.c.d` text) -/
def parseIP6 (a : BitVec 128) : RawIP := .ip16 a

/-- numeric content of the string handed to `ParseIPNet` -/
inductive NetInput where
  /-- no '/' in the string; `ip` is the value returned by `net.ParseIP`
      (`parseIP4 a` / `parseIP6 a`; `malformed` = `nil` = not an IP address) -/
  | bare (ip : RawIP)
  /-- `"a.b.c.d/n"` -/
  | cidr4 (a : BitVec 32) (n : Nat)
  /-- `"<IPv6 text>/n"`, including IPv4-mapped text `"::ffff:a.b.c.d/n"` -/
  | cidr6 (a : BitVec 128) (n : Nat)
  deriving DecidableEq, Repr

/-- numeric part of `net.ParseCIDR`: `(ip, ipNet)`, or `none` for the error return.
    `netip.ParseAddr` yields a 4-byte address (`BitLen()=32`) for dotted-quad text and a
    16-byte one (`BitLen()=128`) for any IPv6 text; `n > BitLen()` is an error. -/
def parseCIDRSem : NetInput → Option (RawIP × IPNet)
  | .bare _ => none
  | .cidr4 a n =>
    match cidrMask n 32 with
    | some m => let ip := RawIP.ip16 (mapped a); some (ip, ⟨ip.mask m, m⟩)
    | none => none
  | .cidr6 a n =>
    match cidrMask n 128 with
    | some m => let ip := RawIP.ip16 a; some (ip, ⟨ip.mask m, m⟩)
    | none => none

/-- `ParseIPNet` on numeric input; `none` is Go's `nil`. -/
def parseIPNetSem : NetInput → Option IPNet
  | .bare ip =>
    if ip.to4.isSome then (cidrMask 32 32).map (fun m => ⟨ip, m⟩)
    else if ip.to16.isSome then (cidrMask 128 128).map (fun m => ⟨ip, m⟩)
    else none
  | inp =>
    match parseCIDRSem inp with
    | none => none
    | some (ip, ipNet) => if !ipNet.ip.equal ip then none else some ipNet

/-! ## Executable entry point for the driver (plain `Nat`/`Bool`/`List` interface) -/

/-- Decode one configured network.
    `(is4text, addrBits, prefixLen)`:
    * `is4text = true`  — the textual address was a dotted quad; `addrBits` is its 32-bit value
    * `is4text = false` — the textual address was IPv6 text (also `::ffff:a.b.c.d`);
      `addrBits` is its 128-bit value
    * `prefixLen = none` — no "/n" part (bare address, goes through `net.ParseIP`)
    Out-of-range `addrBits` are truncated to the width. -/
def decodeNetInput : Bool × Nat × Option Nat → NetInput
  | (true, a, none) => .bare (parseIP4 (BitVec.ofNat 32 a))
  | (false, a, none) => .bare (parseIP6 (BitVec.ofNat 128 a))
  | (true, a, some n) => .cidr4 (BitVec.ofNat 32 a) n
  | (false, a, some n) => .cidr6 (BitVec.ofNat 128 a) n

/-- Decode a lookup address `(kind, bits)`:
    * kind 0 — `net.ParseIP` of dotted-quad text (16-byte mapped form of the 32-bit value)
    * kind 1 — `net.ParseIP` of IPv6 text (16 bytes; `::ffff:a.b.c.d` text gives the same
      value as kind 0)
    * kind 2 — a raw 4-byte `net.IP` (e.g. the result of `.To4()`)
    * anything else — `nil` / wrong length -/
def decodeLookup : Nat × Nat → RawIP
  | (0, a) => parseIP4 (BitVec.ofNat 32 a)
  | (1, a) => parseIP6 (BitVec.ofNat 128 a)
  | (2, a) => .ip4 (BitVec.ofNat 32 a)
  | _ => .malformed

/-- Encode an `IPNet` as `(ipLen, ipBits, maskLen, maskBits)` with lengths in bytes
    (`ipLen = 0` for a malformed IP). -/
def encodeIPNet (n : IPNet) : Nat × Nat × Nat × Nat :=
  let (il, ib) := match n.ip with
    | .ip4 a => (4, a.toNat)
    | .ip16 b => (16, b.toNat)
    | .malformed => (0, 0)
  let (ml, mb) := match n.mask with
    | .m4 m => (4, m.toNat)
    | .m16 m => (16, m.toNat)
  (il, ib, ml, mb)

structure NetSet.RunResult where
  /-- per configured network: `ParseIPNet` result (`none` = nil = configuration error) -/
  parsed : List (Option (Nat × Nat × Nat × Nat))
  /-- `Has(ip)` on the set built (in order) from all networks that parsed -/
  has : Outcome Bool
  /-- specification: does some parsed network `Contains(ip)` -/
  spec : Bool
  deriving Repr

/-- Driver entry: parse every configured network, build the set from those that parse
    (oauth2-proxy itself refuses to start if one does not), look the address up. -/
def NetSet.run (nets : List (Bool × Nat × Option Nat)) (lookup : Nat × Nat) : NetSet.RunResult :=
  let ps := nets.map (fun x => parseIPNetSem (decodeNetInput x))
  let good := ps.filterMap id
  let ip := decodeLookup lookup
  { parsed := ps.map (·.map encodeIPNet)
    has := NetSet.lookup good ip
    spec := good.any (·.contains ip) }

/-- one-line rendering of a `RunResult` (used by the differential test):
    `P <net>;<net>;… | H true|false|panic|err | C true|false` with `<net>` = `nil` or
    `ipLen:ipBits:maskLen:maskBits` (decimal). -/
def NetSet.RunResult.render (r : NetSet.RunResult) : String :=
  let net : Option (Nat × Nat × Nat × Nat) → String
    | none => "nil"
    | some (a, b, c, d) => s!"{a}:{b}:{c}:{d}"
  let h := match r.has with
    | .ok b => toString b
    | .err _ => "err"
    | .panic _ => "panic"
  "P " ++ ";".intercalate (r.parsed.map net) ++ " | H " ++ h ++ " | C " ++ toString r.spec

end O2P
