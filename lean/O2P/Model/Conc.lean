/-
  O2P.Model.Conc — small-step interleaving model of the session refresh under a
  distributed lock (property C12, concurrent part) and the sequential loader
  `loadStored` (property C12, sequential part).

  Go source modelled:
    pkg/middleware/stored_session.go   loadSession, getValidatedSession,
                                       refreshSessionIfNeeded, needsRefresh,
                                       refreshSession, validateSession
    pkg/sessions/redis/lock.go         Obtain (ErrLockNotObtained when held), Release
                                       (only the holder's token releases)
    pkg/sessions/persistence/manager.go  Save re-uses the request's ticket, hence the
                                       same store key: peers reload what was saved
    providers/oidc.go                  RefreshSession redeems the refresh token; the IdP
                                       may rotate single-use refresh tokens

  Abstractions (documented, deliberate):
  * the clock is abstracted to the boolean `fresh` of a session w.r.t. the refresh
    period (`needsRefresh = !fresh`); a run is short w.r.t. the refresh period, so a
    refreshed session stays fresh for the rest of the run;
  * tokens are abstracted to a generation number `gen`: the refresh token and access
    token obtained by the `gen`-th refresh.  The IdP accepts a refresh request only for
    its *current* generation (single-use rotating refresh tokens) and its validation
    endpoint accepts only the current generation's access token (pessimistic);
  * the lock never expires while held (the property's proviso "provided the provider
    answers within the refresh lock's duration"); `expireLock` is provided separately to
    show that the proviso is necessary;
  * the 5 s obtain timeout is not modelled (a failed obtain leaves the pc in place = the
    retry loop);
  * store / lock / IdP operations do not fail for infrastructure reasons.

  Everything is core Lean and executable.
-/
import O2P.Basic

namespace O2P.Conc

/-- Variants of the step function: the real code and the mutants used as sanity checks. -/
inductive Variant where
  | real               -- the code as written
  | noopLock           -- cookie store: `NoOpLock`, Obtain always succeeds, Release no-op
  | noRecheck          -- mutant (a): re-check of `needsRefresh` under the lock removed
  | skipReload         -- mutant (b): the session reloaded under the lock is not used
  | releaseBeforeSave  -- mutant (c): lock released after the IdP call but before Save
  deriving DecidableEq, Repr

/-- The part of `SessionState` that matters: `fresh` = `!needsRefresh`, `gen` = token
generation (refresh token + access token issued by the `gen`-th refresh). -/
structure Sess where
  fresh : Bool
  gen   : Nat
  deriving DecidableEq, Repr

/-- Final status of a request. -/
inductive Res where
  | served   -- session put in scope, request forwarded as authenticated
  | unauth   -- `getValidatedSession` failed: scope session nil, cookie + store cleared
  deriving DecidableEq, Repr

/-- Program counter over the skeleton of `loadSession`/`refreshSessionIfNeeded`.
Each constructor names the operation the thread performs *next*. -/
inductive PC where
  | load                 -- s.store.Load(req)
  | check                -- needsRefresh(session)?           (local)
  | obtain               -- session.ObtainLock (retry loop)
  | reload               -- s.store.Load(req) under the lock
  | recheck              -- needsRefresh(session) again?     (local)
  | refresh              -- s.sessionRefresher → IdP token endpoint
  | relEarly             -- (mutant c only) release before save
  | save                 -- session.CreatedAtNow(); s.store.Save
  | validate             -- s.validateSession
  | release (ok : Bool)  -- deferred session.ReleaseLock; `ok` = error-free return
  | clear                -- loadSession: s.store.Clear after an error
  | done (r : Res)
  deriving DecidableEq, Repr

/-- Thread-local state: program counter and the request's `*session`. -/
structure Thread where
  pc   : PC
  sess : Sess
  deriving DecidableEq, Repr

/-- The identity provider. -/
structure IdP where
  cur        : Nat   -- generation of the refresh token that is currently valid
  calls      : Nat   -- refresh requests received at the token endpoint
  staleCalls : Nat   -- … of which presented an already rotated refresh token
  deriving DecidableEq, Repr

/-- A configuration: shared state plus all threads.  Threads are `Nat`-indexed;
only indices `< n` exist (steps of other indices are ignored). -/
structure Config where
  n       : Nat
  store   : Option Sess      -- the store entry under the ticket's key
  lock    : Option Nat       -- holder of `<ticket>.lock`
  idp     : IdP
  threads : Nat → Thread

/-- Replace thread `tid`. -/
def Config.setT (c : Config) (tid : Nat) (th : Thread) : Config :=
  { c with threads := fun i => if i = tid then th else c.threads i }

/-- Release by `tid`: redislock only deletes the key if it still carries the caller's
token, so a release by a non-holder is a no-op. -/
def relLock (l : Option Nat) (tid : Nat) : Option Nat :=
  if l = some tid then none else l

/-- One step of thread `tid` (which is assumed to exist). -/
def stepThread (v : Variant) (c : Config) (tid : Nat) : Config :=
  let th := c.threads tid
  match th.pc with
  | .load =>
    match c.store with
    | some s => c.setT tid { pc := .check, sess := s }
    | none   => c.setT tid { th with pc := .clear }   -- Load error ≠ ErrNoCookie → Clear
  | .check =>
    if th.sess.fresh then c.setT tid { th with pc := .done .served }
    else c.setT tid { th with pc := .obtain }
  | .obtain =>
    if v = .noopLock then c.setT tid { th with pc := .reload }
    else match c.lock with
      | none   => { c with lock := some tid }.setT tid { th with pc := .reload }
      | some _ => c                                    -- ErrLockNotObtained: sleep, retry
  | .reload =>
    match c.store with
    | some s =>   -- `*session = *freshSession` (mutant b: the reloaded session is ignored)
      c.setT tid { pc := .recheck, sess := if v = Variant.skipReload then th.sess else s }
    | none   => c.setT tid { th with pc := .release false }  -- "session no longer exists"
  | .recheck =>
    if th.sess.fresh && v != .noRecheck then c.setT tid { th with pc := .release true }
    else c.setT tid { th with pc := .refresh }
  | .refresh =>
    if th.sess.gen = c.idp.cur then
      -- refresh token accepted and rotated; new tokens; CreatedAt reset
      { c with idp := { c.idp with cur := c.idp.cur + 1, calls := c.idp.calls + 1 } }.setT tid
        { pc := if v = Variant.releaseBeforeSave then PC.relEarly else PC.save
          sess := { fresh := true, gen := c.idp.cur + 1 } }
    else
      -- rotated refresh token presented: IdP rejects; the error is only logged,
      -- validateSession decides
      { c with idp := { c.idp with calls := c.idp.calls + 1,
                                   staleCalls := c.idp.staleCalls + 1 } }.setT tid
        { th with pc := .validate }
  | .relEarly =>
    { c with lock := relLock c.lock tid }.setT tid { th with pc := .save }
  | .save =>
    { c with store := some th.sess }.setT tid { th with pc := .validate }
  | .validate =>
    c.setT tid { th with pc := .release (th.sess.gen == c.idp.cur) }
  | .release ok =>
    { c with lock := relLock c.lock tid }.setT tid
      { th with pc := if ok then .done .served else .clear }
  | .clear =>
    { c with store := none }.setT tid { th with pc := .done .unauth }
  | .done _ => c

/-- One scheduling step: thread ids that do not exist are ignored, and so are threads
that are done (`stepThread` is the identity on them). -/
def step (v : Variant) (c : Config) (tid : Nat) : Config :=
  if tid < c.n then stepThread v c tid else c

/-- Run a schedule. -/
def run (v : Variant) (c : Config) (sched : List Nat) : Config :=
  sched.foldl (step v) c

/-- Initial configuration: `n` requests sharing one stale stored session whose tokens are
generation `g`; nobody holds the lock; the IdP has seen no refresh. -/
def init (n g : Nat) : Config :=
  { n := n
    store := some { fresh := false, gen := g }
    lock := none
    idp := { cur := g, calls := 0, staleCalls := 0 }
    threads := fun _ => { pc := .load, sess := { fresh := false, gen := 0 } } }

/-- Environment step outside the property's proviso: the lock's TTL runs out. -/
def expireLock (c : Config) : Config := { c with lock := none }

/-! ### "Visible operation" granularity

The Go harness can only block a request at its store / lock / IdP operations.  The local
steps `check` and `recheck` are therefore fused with the preceding visible operation. -/

def isLocal : PC → Bool
  | .check | .recheck => true
  | _ => false

/-- Perform one visible operation of `tid`, then its local steps. -/
def stepVis (v : Variant) (c : Config) (tid : Nat) : Config :=
  let c1 := step v c tid
  let c2 := if isLocal (c1.threads tid).pc then step v c1 tid else c1
  c2

def runVis (v : Variant) (c : Config) (sched : List Nat) : Config :=
  sched.foldl (stepVis v) c

/-! ### Executable entry points -/

/-- Per-thread outcome reported to the driver. -/
structure ThreadSummary where
  done   : Bool
  served : Bool
  fresh  : Bool
  gen    : Nat
  pc     : String
  deriving DecidableEq, Repr

structure Summary where
  refreshCalls : Nat
  staleCalls   : Nat
  idpGen       : Nat
  storeGen     : Option Nat     -- `none` = store entry cleared
  storeFresh   : Bool
  lockHeld     : Bool
  threads      : List ThreadSummary
  deriving DecidableEq, Repr

def PC.name : PC → String
  | .load => "load" | .check => "check" | .obtain => "obtain" | .reload => "reload"
  | .recheck => "recheck" | .refresh => "refresh" | .relEarly => "relEarly"
  | .save => "save" | .validate => "validate"
  | .release true => "release-ok" | .release false => "release-err"
  | .clear => "clear" | .done .served => "served" | .done .unauth => "unauth"

def Thread.summary (t : Thread) : ThreadSummary :=
  { done := match t.pc with | .done _ => true | _ => false
    served := t.pc = .done .served
    fresh := t.sess.fresh
    gen := t.sess.gen
    pc := t.pc.name }

def Config.summary (c : Config) : Summary :=
  { refreshCalls := c.idp.calls
    staleCalls := c.idp.staleCalls
    idpGen := c.idp.cur
    storeGen := c.store.map (·.gen)
    storeFresh := match c.store with | some s => s.fresh | none => false
    lockHeld := c.lock.isSome
    threads := (List.range c.n).map fun i => (c.threads i).summary }

/-- Driver entry: run `schedule` (one entry = one small step of that thread) on `nThreads`
requests sharing a stale session of token generation 0. -/
def runSchedule (v : Variant) (nThreads : Nat) (schedule : List Nat) : Summary :=
  (run v (init nThreads 0) schedule).summary

/-- Driver entry at visible-operation granularity (one entry = one store/lock/IdP
operation of that thread; local `needsRefresh` checks are fused). -/
def runScheduleVis (v : Variant) (nThreads : Nat) (schedule : List Nat) : Summary :=
  (runVis v (init nThreads 0) schedule).summary

def Variant.ofString : String → Option Variant
  | "real" => some .real
  | "noopLock" => some .noopLock
  | "noRecheck" => some .noRecheck
  | "skipReload" => some .skipReload
  | "releaseBeforeSave" => some .releaseBeforeSave
  | _ => none

/-- One-line rendering: `calls=1 stale=0 idpGen=1 store=1/fresh lock=free | served:1 served:1`. -/
def Summary.render (s : Summary) : String :=
  let st := match s.storeGen with
    | some g => toString g ++ (if s.storeFresh then "/fresh" else "/stale")
    | none => "cleared"
  let ths := s.threads.map fun t => t.pc ++ ":" ++ toString t.gen
  s!"calls={s.refreshCalls} stale={s.staleCalls} idpGen={s.idpGen} store={st} " ++
  s!"lock={if s.lockHeld then "held" else "free"} | " ++ " ".intercalate ths

/-! ## Sequential loader: `loadSession` ∘ `getValidatedSession` for ONE request -/

/-- Result of the first `store.Load`. -/
inductive LoadRes where
  | found      -- a session
  | noCookie   -- `http.ErrNoCookie` (or `nil, nil`): nothing to do, nothing cleared
  | err        -- any other error
  deriving DecidableEq, Repr

/-- Result of the obtain loop. -/
inductive ObtainRes where
  | ok | err | timeout
  deriving DecidableEq, Repr

/-- Result of the reload under the lock. -/
inductive ReloadRes where
  | found (stillStale : Bool)   -- `stillStale = needsRefresh(reloaded session)`
  | missing                     -- `freshSession == nil`
  | err
  deriving DecidableEq, Repr

/-- Result of the provider's `RefreshSession`. -/
inductive RefreshRes where
  | ok            -- `(true, nil)`: new tokens
  | noToken       -- `(false, nil)`: nothing refreshed (e.g. no refresh token)
  | unsupported   -- `ErrNotImplemented`: counts as refreshed (HACK in the code)
  | failed        -- any other error
  deriving DecidableEq, Repr

structure SeqIn where
  load     : LoadRes
  stale    : Bool         -- needsRefresh of the loaded session
  obtain   : ObtainRes
  reload   : ReloadRes
  refresh  : RefreshRes
  saveOk   : Bool
  expired  : Bool         -- `session.IsExpired()` at validation time
  validate : Bool         -- provider `ValidateSession`
  deriving DecidableEq, Repr

structure SeqOut where
  inScope        : Bool   -- scope.Session != nil
  cleared        : Bool   -- store.Clear called (cookie cleared)
  refreshCalled  : Bool
  newTokens      : Bool   -- the session in scope carries tokens from a successful refresh
  createdAtReset : Bool   -- CreatedAtNow called (refresh timer reset)
  saveCalled     : Bool
  saved          : Bool   -- Save called and succeeded
  validateCalled : Bool   -- provider validation reached (not short-circuited by IsExpired)
  lockReleased   : Bool
  deriving DecidableEq, Repr

def SeqOut.none : SeqOut :=
  { inScope := false, cleared := false, refreshCalled := false, newTokens := false,
    createdAtReset := false, saveCalled := false, saved := false,
    validateCalled := false, lockReleased := false }

/-- `loadSession` for one request, following the code path exactly. -/
def loadStored (i : SeqIn) : SeqOut :=
  match i.load with
  | .noCookie => SeqOut.none
  | .err => { SeqOut.none with cleared := true }
  | .found =>
    if !i.stale then { SeqOut.none with inScope := true }      -- needsRefresh false
    else match i.obtain with
    | .err | .timeout => { SeqOut.none with cleared := true }  -- error before lock obtained
    | .ok =>
      match i.reload with
      | .err | .missing => { SeqOut.none with cleared := true, lockReleased := true }
      | .found false =>                                        -- a peer refreshed it
        { SeqOut.none with inScope := true, lockReleased := true }
      | .found true =>
        -- refreshSession (its error is only logged)
        let refreshed := i.refresh == .ok || i.refresh == .unsupported
        let saved := refreshed && i.saveOk
        -- validateSession
        let valid := !i.expired && i.validate
        { inScope := valid
          cleared := !valid
          refreshCalled := true
          newTokens := valid && i.refresh == .ok
          createdAtReset := refreshed
          saveCalled := refreshed
          saved := saved
          validateCalled := !i.expired
          lockReleased := true }

end O2P.Conc
