/-
  O2P.Model.Headers — executable model of oauth2-proxy's header injection (property C07).

  Go sources modelled (repo @0f7befa):
    * net/textproto  CanonicalMIMEHeaderKey / validHeaderFieldByte      → `validHeaderFieldByte`, `canonKey`
    * net/http       Header.Add / Set / Del / Get / Values              → `hAdd`, `hSet`, `hDel`, `hGet`, `hValues`
    * pkg/apis/sessions/session_state.go   (*SessionState).GetClaim     → `getClaim`
    * pkg/header/injector.go               NewInjector + value injectors→ `injectors`, `sourceValues`, `injectAll`
    * pkg/middleware/headers.go            newStripHeaders/stripHeaders/flattenHeaders/
                                           injectRequestHeaders/injectResponseHeaders
                                                                        → `stripNames`, `strip`, `flatten`,
                                                                          `pipelineRequest`, `pipelineResponse`
    * pkg/apis/options/legacy_options.go   (*LegacyHeaders).convert     → `legacyConvert`

  Representation choices
    * `Headers` is an association list `List (Str × List Str)`; it represents the Go
      `map[string][]string`.  A missing key and a key bound to `[]` are indistinguishable for
      every operation modelled here (`Get`, `Values`, `len(values) > 1`), so the observable
      content of a header map is the function `hVals h : Str → List Str`.
      Well-formed maps (`WF`, see O2P/Lemmas/Headers.lean) have pairwise distinct keys; every map
      built with `hAdd/hSet/hDel/fromClient` is well-formed, and additionally has canonical keys.
    * Go map iteration order is unspecified; `flatten` iterates the snapshot in list order.  On
      maps with canonical, pairwise distinct keys the result does not depend on that order
      (lemma `hVals_flatten`).
    * base64.StdEncoding is a parameter `b64 : Str → Str`.
    * A Go panic (nil `*time.Time` dereference in `GetClaim("created_at"/"expires_on")`) is the
      `Outcome.panic` result; `fixed := true` models the repaired code (no value when the
      pointer is nil).
  Core Lean only.
-/
import O2P.Basic

namespace O2P.Hdr

/-! ## textproto.CanonicalMIMEHeaderKey -/

/-- `textproto.validHeaderFieldByte`: RFC 7230 `tchar`. -/
def validHeaderFieldByte (c : Char) : Bool :=
  isDigit c || ('a' ≤ c && c ≤ 'z') || ('A' ≤ c && c ≤ 'Z') ||
  "!#$%&'*+-.^_`|~".toList.contains c

/-- the canonicalising loop of `canonicalMIMEHeaderKey` (`upper` = "next letter is upper-cased") -/
def canonGo (upper : Bool) : Str → Str
  | [] => []
  | c :: cs =>
    let c' := if upper then asciiUpper c else asciiLower c
    c' :: canonGo (c' == '-') cs

/-- `http.CanonicalHeaderKey` = `textproto.CanonicalMIMEHeaderKey`.
    If the key contains any byte that is not a token char (this includes the space) it is
    returned unchanged; otherwise the first letter and every letter following a '-' is
    upper-cased and every other letter is lower-cased. -/
def canonKey (s : Str) : Str :=
  if s.all validHeaderFieldByte then canonGo true s else s

/-! ## http.Header -/

/-- `http.Header` (`map[string][]string`). -/
abbrev Headers := List (Str × List Str)

/-- raw map lookup `h[k]` (nil slice = `[]`) -/
def hVals : Headers → Str → List Str
  | [], _ => []
  | (k', vs) :: r, k => if k' = k then vs else hVals r k

/-- raw `h[k] = append(h[k], v)` -/
def addRaw : Headers → Str → Str → Headers
  | [], k, v => [(k, [v])]
  | (k', vs) :: r, k, v => if k' = k then (k', vs ++ [v]) :: r else (k', vs) :: addRaw r k v

/-- raw `h[k] = []string{v}` -/
def setRaw : Headers → Str → Str → Headers
  | [], k, v => [(k, [v])]
  | (k', vs) :: r, k, v => if k' = k then (k', [v]) :: r else (k', vs) :: setRaw r k v

/-- raw `delete(h, k)` -/
def delRaw (h : Headers) (k : Str) : Headers := h.filter (fun e => e.1 ≠ k)

/-- `Header.Values(name)` -/
def hValues (h : Headers) (name : Str) : List Str := hVals h (canonKey name)
/-- `Header.Get(name)`: first value, `""` if none -/
def hGet (h : Headers) (name : Str) : Str := (hVals h (canonKey name)).headD []
/-- `Header.Add(name, v)` -/
def hAdd (h : Headers) (name v : Str) : Headers := addRaw h (canonKey name) v
/-- `Header.Set(name, v)` -/
def hSet (h : Headers) (name v : Str) : Headers := setRaw h (canonKey name) v
/-- `Header.Del(name)` -/
def hDel (h : Headers) (name : Str) : Headers := delRaw h (canonKey name)

/-- The header map handed to a handler by net/http: the server canonicalises every field name
    and appends repeated fields in arrival order. -/
def fromClient (raw : List (Str × Str)) : Headers :=
  raw.foldl (fun h nv => hAdd h nv.1 nv.2) []

/-! ## sessions.SessionState.GetClaim -/

structure Session where
  email : Str
  user : Str
  preferredUsername : Str
  accessToken : Str
  idToken : Str
  refreshToken : Str
  groups : List Str
  /-- `CreatedAt.String()`; `none` = nil pointer -/
  createdAt : Option Str
  /-- `ExpiresOn.String()`; `none` = nil pointer -/
  expiresOn : Option Str
  deriving Repr, DecidableEq

/-- `*time.Time` rendering inside `GetClaim`. Current code dereferences a nil pointer and panics;
    the fixed code yields no value. -/
def timeClaim (fixed : Bool) : Option Str → Outcome (List Str)
  | some t => .ok [t]
  | none => if fixed then .ok [] else .panic "runtime error: invalid memory address or nil pointer dereference"

/-- `(*SessionState).GetClaim`. `s = none` is the nil session. -/
def getClaim (fixed : Bool) (s : Option Session) (claim : Str) : Outcome (List Str) :=
  match s with
  | none => .ok []
  | some s =>
    if claim = "access_token".toList then .ok [s.accessToken]
    else if claim = "id_token".toList then .ok [s.idToken]
    else if claim = "created_at".toList then timeClaim fixed s.createdAt
    else if claim = "expires_on".toList then timeClaim fixed s.expiresOn
    else if claim = "refresh_token".toList then .ok [s.refreshToken]
    else if claim = "email".toList then .ok [s.email]
    else if claim = "user".toList then .ok [s.user]
    else if claim = "groups".toList then .ok s.groups
    else if claim = "preferred_username".toList then .ok [s.preferredUsername]
    else .ok []

/-! ## header.NewInjector -/

/-- a validated `options.HeaderValue` (exactly one of SecretSource / ClaimSource set; secrets
    already resolved by `util.GetSecretValue` at start-up) -/
inductive ValueSource where
  | secret (value : Str)
  | claim (claim : Str) (pfx : Str) (basicAuthPassword : Option Str)
  deriving Repr, DecidableEq

/-- `options.Header` -/
structure HeaderCfg where
  name : Str
  preserve : Bool
  values : List ValueSource
  deriving Repr, DecidableEq

/-- how a claim value is rendered by `newClaimInjector` (basic-auth wins over prefix) -/
def renderClaim (b64 : Str → Str) (pfx : Str) (bap : Option Str) (v : Str) : Str :=
  match bap with
  | some pw => "Basic ".toList ++ b64 (v ++ ':' :: pw)
  | none => if pfx ≠ [] then pfx ++ v else v

/-- the values one value-injector `Add`s (in order); empty claim values are skipped -/
def sourceValues (fixed : Bool) (b64 : Str → Str) (s : Option Session) : ValueSource → Outcome (List Str)
  | .secret v => .ok [v]
  | .claim c pfx bap =>
    match getClaim fixed s c with
    | .ok vs => .ok ((vs.filter (fun v => v ≠ [])).map (renderClaim b64 pfx bap))
    | .err e => .err e
    | .panic m => .panic m

/-- `NewInjector`: one value injector per (header, value), in configuration order -/
def injectors (cfg : List HeaderCfg) : List (Str × ValueSource) :=
  cfg.flatMap (fun c => c.values.map (fun v => (c.name, v)))

/-- `header.Add(name, v)` for each v -/
def addMany (h : Headers) (name : Str) (vs : List Str) : Headers :=
  vs.foldl (fun h v => hAdd h name v) h

/-- `injector.Inject` -/
def injectAll (fixed : Bool) (b64 : Str → Str) (s : Option Session) :
    List (Str × ValueSource) → Headers → Outcome Headers
  | [], h => .ok h
  | (n, src) :: r, h =>
    match sourceValues fixed b64 s src with
    | .ok vs => injectAll fixed b64 s r (addMany h n vs)
    | .err e => .err e
    | .panic m => .panic m

/-! ## middleware: strip / flatten / pipelines -/

/-- `newStripHeaders`: names of the headers that are not preserved -/
def stripNames (cfg : List HeaderCfg) : List Str :=
  (cfg.filter (fun c => !c.preserve)).map (·.name)

/-- `stripHeaders` -/
def strip (names : List Str) (h : Headers) : Headers := names.foldl hDel h

def setCookieKey : Str := "Set-Cookie".toList

/-- one iteration of the `flattenHeaders` loop body -/
def flattenStep (acc : Headers) (e : Str × List Str) : Headers :=
  if e.2.length > 1 && e.1 ≠ setCookieKey then hSet acc e.1 (joinWith ',' e.2) else acc

/-- `flattenHeaders`: `for name, values := range headers { … headers.Set(name, Join(values, ",")) }` -/
def flatten (h : Headers) : Headers := h.foldl flattenStep h

/-- request side: `alice.New(strip, headerInjector)`: strip, then inject, then flatten.
    The result is the header map seen by the next handler (the upstream proxy). -/
def pipelineRequest (fixed : Bool) (b64 : Str → Str) (cfg : List HeaderCfg)
    (s : Option Session) (client : Headers) : Outcome Headers :=
  match injectAll fixed b64 s (injectors cfg) (strip (stripNames cfg) client) with
  | .ok h => .ok (flatten h)
  | .err e => .err e
  | .panic m => .panic m

/-- response side (`injectResponseHeaders`): no strip; starts from the response headers already
    set on the ResponseWriter. -/
def pipelineResponse (fixed : Bool) (b64 : Str → Str) (cfg : List HeaderCfg)
    (s : Option Session) (resp : Headers) : Outcome Headers :=
  match injectAll fixed b64 s (injectors cfg) resp with
  | .ok h => .ok (flatten h)
  | .err e => .err e
  | .panic m => .panic m

/-! ## base64.StdEncoding (executable helper for the driver; the pipelines take `b64` as a parameter) -/

def b64Alphabet : List Char :=
  "ABCDEFGHIJKLMNOPQRSTUVWXYZabcdefghijklmnopqrstuvwxyz0123456789+/".toList

def b64Char (n : Nat) : Char := b64Alphabet.getD n 'A'

/-- `base64.StdEncoding.EncodeToString` on byte strings (chars are taken modulo 256) -/
def b64Std : Str → Str
  | [] => []
  | [a] =>
    let x := a.toNat % 256
    [b64Char (x / 4), b64Char (x % 4 * 16), '=', '=']
  | [a, b] =>
    let x := a.toNat % 256; let y := b.toNat % 256
    [b64Char (x / 4), b64Char (x % 4 * 16 + y / 16), b64Char (y % 16 * 4), '=']
  | a :: b :: c :: r =>
    let x := a.toNat % 256; let y := b.toNat % 256; let z := c.toNat % 256
    b64Char (x / 4) :: b64Char (x % 4 * 16 + y / 16) :: b64Char (y % 16 * 4 + z / 64) ::
      b64Char (z % 64) :: b64Std r

/-! ## LegacyHeaders.convert -/

structure LegacyHeaders where
  passBasicAuth : Bool
  passAccessToken : Bool
  passUserHeaders : Bool
  passAuthorization : Bool
  setBasicAuth : Bool
  setXAuthRequest : Bool
  setAuthorization : Bool
  preferEmailToUser : Bool
  basicAuthPassword : Str
  skipAuthStripHeaders : Bool
  deriving Repr, DecidableEq

def claimHeader (name claim : String) : HeaderCfg :=
  { name := name.toList, preserve := false, values := [.claim claim.toList [] none] }

def getBasicAuthHeader (preferEmailToUser : Bool) (basicAuthPassword : Str) : HeaderCfg :=
  { name := "Authorization".toList, preserve := false,
    values := [.claim (if preferEmailToUser then "email".toList else "user".toList)
                 "Basic ".toList (some basicAuthPassword)] }

def getPassUserHeaders (preferEmailToUser : Bool) : List HeaderCfg :=
  claimHeader "X-Forwarded-Groups" "groups" ::
    (if preferEmailToUser then [claimHeader "X-Forwarded-User" "email"]
     else [claimHeader "X-Forwarded-User" "user", claimHeader "X-Forwarded-Email" "email"])

def getPassAccessTokenHeader : HeaderCfg := claimHeader "X-Forwarded-Access-Token" "access_token"

def getAuthorizationHeader : HeaderCfg :=
  { name := "Authorization".toList, preserve := false,
    values := [.claim "id_token".toList "Bearer ".toList none] }

def getPreferredUsernameHeader : HeaderCfg :=
  claimHeader "X-Forwarded-Preferred-Username" "preferred_username"

def getXAuthRequestHeaders : List HeaderCfg :=
  [ claimHeader "X-Auth-Request-User" "user",
    claimHeader "X-Auth-Request-Email" "email",
    claimHeader "X-Auth-Request-Preferred-Username" "preferred_username",
    claimHeader "X-Auth-Request-Groups" "groups" ]

def getXAuthRequestAccessTokenHeader : HeaderCfg :=
  claimHeader "X-Auth-Request-Access-Token" "access_token"

def legacyRequestHeaders (l : LegacyHeaders) : List HeaderCfg :=
  let hs :=
    (if l.passBasicAuth && l.basicAuthPassword ≠ [] then
        [getBasicAuthHeader l.preferEmailToUser l.basicAuthPassword] else []) ++
    (if l.passBasicAuth || l.passUserHeaders then
        getPassUserHeaders l.preferEmailToUser ++ [getPreferredUsernameHeader] else []) ++
    (if l.passAccessToken then [getPassAccessTokenHeader] else []) ++
    (if l.passAuthorization then [getAuthorizationHeader] else [])
  hs.map (fun c => { c with preserve := !l.skipAuthStripHeaders })

def legacyResponseHeaders (l : LegacyHeaders) : List HeaderCfg :=
  (if l.setXAuthRequest then
      getXAuthRequestHeaders ++ (if l.passAccessToken then [getXAuthRequestAccessTokenHeader] else [])
   else []) ++
  (if l.setBasicAuth then [getBasicAuthHeader l.preferEmailToUser l.basicAuthPassword] else []) ++
  (if l.setAuthorization then [getAuthorizationHeader] else [])

/-- `(*LegacyHeaders).convert` : (InjectRequestHeaders, InjectResponseHeaders) -/
def legacyConvert (l : LegacyHeaders) : List HeaderCfg × List HeaderCfg :=
  (legacyRequestHeaders l, legacyResponseHeaders l)

end O2P.Hdr
