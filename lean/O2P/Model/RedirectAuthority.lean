/-
  O2P.Model.RedirectAuthority — OPTIONAL companion to `O2P.Model.Redirect`:
  hand models of how (a) Go's `net/url.Parse` + `URL.Hostname()`/`URL.Port()` and (b) a WHATWG
  browser extract host and port from a string that starts with `http://` or `https://`
  (the absolute branch of `IsValidRedirect`).  They are used to show that the host the
  validator checks against the whitelist is the host the browser will navigate to
  (no parser differential), see `O2P.Props.C06Authority`.

  Fragment covered (`hostInFragment s = true`): the host part of the authority (what follows
  the last `@`, up to the first `/`, `?`, `#`) contains no `%`, no `[`/`]` (IPv6 literals) and
  only bytes < 0x80.  Outside the fragment `goParseHostPort` is NOT claimed to agree with Go.
  Everything else (userinfo with escapes, path, query, fragment, control characters, …) is
  modelled as Go 1.23 does it.

  Executable entry points:
    goParseHostPort   : Str → Option (Str × Str)     -- `none` = `url.Parse` error
    hostInFragment    : Str → Bool
    browserHostPort   : Str → BHost
-/
import O2P.Model.Redirect

namespace O2P
namespace Redirect

/-! ## Go `net/url` -/

/-- `stringContainsCTLByte` per byte -/
def isCTL (c : Char) : Bool := c.toNat < 0x20 || c.toNat == 0x7f

def isHex (c : Char) : Bool :=
  isDigit c || ('a' ≤ c && c ≤ 'f') || ('A' ≤ c && c ≤ 'F')

def isAlnum (c : Char) : Bool := isAlpha c || isDigit c

/-- `unescape(s, mode)` succeeds, for the modes that only check `%XX` well-formedness
    (`encodePath`, `encodeFragment`, `encodeUserPassword`) -/
def validEscapes : Str → Bool
  | [] => true
  | '%' :: a :: b :: r => isHex a && isHex b && validEscapes r
  | '%' :: _ => false
  | _ :: r => validEscapes r

/-- `net/url.validOptionalPort` (digits only; the oauth2-proxy copy additionally accepts `:*`) -/
def urlValidOptionalPort (port : Str) : Bool :=
  match port with
  | [] => true
  | ':' :: rest => rest.all isDigit
  | _ => false

/-- `!shouldEscape(c, encodeHost)` for an ASCII byte -/
def goHostByteOK (c : Char) : Bool :=
  isAlnum c ||
  c == '!' || c == '$' || c == '&' || c == '\'' || c == '(' || c == ')' || c == '*' || c == '+' ||
  c == ',' || c == ';' || c == '=' || c == ':' || c == '[' || c == ']' || c == '<' || c == '>' ||
  c == '"' || c == '-' || c == '_' || c == '.' || c == '~'

/-- one rune of `validUserinfo` (non-ASCII bytes decode to runes outside the set) -/
def goUserinfoByteOK (c : Char) : Bool :=
  isAlnum c ||
  c == '-' || c == '.' || c == '_' || c == ':' || c == '~' || c == '!' || c == '$' || c == '&' ||
  c == '\'' || c == '(' || c == ')' || c == '*' || c == '+' || c == ',' || c == ';' || c == '=' ||
  c == '%' || c == '@'

/-- part of `l` after the last occurrence of `c` (all of `l` if there is none) -/
def afterLast (c : Char) (l : Str) : Str :=
  match lastIndexOf c l with
  | some i => l.drop (i + 1)
  | none => l

/-- part of `l` before the last occurrence of `c` (`none` if there is none) -/
def beforeLast (c : Char) (l : Str) : Option Str :=
  match lastIndexOf c l with
  | some i => some (l.take i)
  | none => none

/-- `net/url.splitHostPort` (behind `Hostname()`/`Port()`) -/
def urlSplitHostPort (hostport : Str) : Str × Str :=
  let hp : Str × Str :=
    match lastIndexOf ':' hostport with
    | some colon =>
        if urlValidOptionalPort (hostport.drop colon)
        then (hostport.take colon, hostport.drop (colon + 1))
        else (hostport, [])
    | none => (hostport, [])
  let host := hp.1
  let host := if hasPrefix ['['] host && hasSuffix [']'] host then (host.drop 1).dropLast else host
  (host, hp.2)

/-- `parseHost` restricted to the fragment (no `[`-literal, no `%`, ASCII) -/
def goParseHostOK (hostpart : Str) : Bool :=
  (match lastIndexOf ':' hostpart with
   | some i => urlValidOptionalPort (hostpart.drop i)
   | none => true) &&
  hostpart.all goHostByteOK

/-- the userinfo checks of `parseAuthority` -/
def goUserinfoOK (userinfo : Str) : Bool :=
  userinfo.all goUserinfoByteOK &&
  (if userinfo.contains ':' then
     validEscapes (userinfo.takeWhile (· != ':')) &&
     validEscapes ((userinfo.dropWhile (· != ':')).drop 1)
   else validEscapes userinfo)

/-- strip `http:` / `https:` (what `getScheme` returns as `rest`) -/
def stripHttpScheme (s : Str) : Option Str :=
  match s with
  | 'h' :: 't' :: 't' :: 'p' :: ':' :: r => some r
  | 'h' :: 't' :: 't' :: 'p' :: 's' :: ':' :: r => some r
  | _ => none

def isGoAuthEnd (c : Char) : Bool := c == '/' || c == '?' || c == '#'

/-- the text after `scheme://` -/
def afterSchemeSlashes (s : Str) : Option Str :=
  match stripHttpScheme s with
  | some ('/' :: '/' :: r) => some r
  | _ => none

/-- Go's authority: `Parse` cuts at `#`, `parse` cuts at `?`, then at the first `/` -/
def goAuthority (r : Str) : Str :=
  ((r.takeWhile (· != '#')).takeWhile (· != '?')).takeWhile (· != '/')

/-- the escaped path handed to `setPath` -/
def goRawPath (r : Str) : Str :=
  ((r.takeWhile (· != '#')).takeWhile (· != '?')).dropWhile (· != '/')

/-- the fragment handed to `setFragment` (after the first `#`) -/
def goRawFragment (r : Str) : Str := (r.dropWhile (· != '#')).drop 1

/-- the fragment of inputs on which `goParseHostPort` is claimed faithful -/
def hostInFragment (s : Str) : Bool :=
  match afterSchemeSlashes s with
  | none => false
  | some r =>
    (afterLast '@' (goAuthority r)).all
      (fun c => c != '%' && c != '[' && c != ']' && c.toNat < 0x80)

/-- the userinfo part of `parseAuthority` (nothing to check when there is no `@`) -/
def goUserinfoPartOK (authority : Str) : Bool :=
  match beforeLast '@' authority with
  | some ui => goUserinfoOK ui
  | none => true

/-- `url.Parse(s)` followed by `Hostname()` / `Port()`, for `s` starting with `http://` or
    `https://` (lower case, as `IsValidRedirect` checks); `none` = parse error (or `s` does not
    start that way).  The conjuncts are, in order: no control byte before the first `#`
    (`Parse` cuts the fragment off before `parse` checks for control bytes); `parseHost`;
    userinfo; `setPath`; `setFragment`. -/
def goParseHostPort (s : Str) : Option (Str × Str) :=
  match afterSchemeSlashes s with
  | none => none
  | some r =>
    let authority := goAuthority r
    let hostpart := afterLast '@' authority
    if !(s.takeWhile (· != '#')).any isCTL && goParseHostOK hostpart &&
       goUserinfoPartOK authority && validEscapes (goRawPath r) &&
       validEscapes (goRawFragment r)
    then some (urlSplitHostPort hostpart)
    else none

/-! ## WHATWG browser -/

inductive BHost where
  /-- the URL parser returns failure: the browser does not navigate -/
  | failure
  /-- the host "ends in a number" and goes through the IPv4 parser (result not modelled) -/
  | ipv4
  /-- a domain; `port` = the digits found after the colon (the browser then drops a default
      port and normalises leading zeros) -/
  | domain (host port : Str)
  deriving Repr, DecidableEq

def isBrowserAuthEnd (c : Char) : Bool := c == '/' || c == '\\' || c == '?' || c == '#'

/-- forbidden domain code points (ASCII) -/
def isForbiddenDomainByte (c : Char) : Bool :=
  c.toNat ≤ 0x20 || c == '#' || c == '/' || c == ':' || c == '<' || c == '>' || c == '?' ||
  c == '@' || c == '[' || c == '\\' || c == ']' || c == '^' || c == '|' || c == '%' ||
  c.toNat == 0x7f

/-- last label, ignoring one trailing empty label -/
def lastLabel (h : Str) : Str :=
  match (splitOn '.' h).reverse with
  | [] :: l :: _ => l
  | l :: _ => l
  | [] => []

/-- "ends in a number" checker of the host parser -/
def endsInNumber (h : Str) : Bool :=
  let l := lastLabel h
  (!l.isEmpty && l.all isDigit) ||
  (match l with
   | '0' :: x :: r => (x == 'x' || x == 'X') && r.all isHex
   | _ => false)

/-- host parser on an ASCII, `%`-free, non-bracketed host string -/
def browserParseHost (host port : Str) : BHost :=
  let h := lower host
  if h.any isForbiddenDomainByte then .failure
  else if endsInNumber h then .ipv4
  else .domain h port

/-- authority state (credentials are skipped), host state, port state, host parser -/
def browserOfAuthority (authority : Str) : BHost :=
  let hostport := afterLast '@' authority
  if authority.contains '@' && hostport.isEmpty then .failure
  else
    let host := hostport.takeWhile (· != ':')
    let port := (hostport.dropWhile (· != ':')).drop 1
    if host.isEmpty then .failure
    else if !port.all isDigit then .failure
    else if 65535 < digitsToNat port then .failure
    else browserParseHost host port

/-- Basic URL parser for an input that starts with `http:`/`https:` (no base needed):
    scheme state, special authority (ignore) slashes, then the authority up to the first
    `/`, `\`, `?` or `#`. -/
def browserHostPort (s : Str) : BHost :=
  match stripHttpScheme (browserPre s) with
  | none => .failure
  | some rest =>
    browserOfAuthority ((rest.dropWhile isSep).takeWhile (fun c => !isBrowserAuthEnd c))

end Redirect
end O2P
