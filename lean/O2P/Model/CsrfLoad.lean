/-
  O2P.Model.CsrfLoad — `cookies.LoadCSRFCookie` (pkg/cookies/csrf.go):

      for _, cookie := range req.Cookies() {
          if cookie.Name != cookieName { continue }
          csrf, err := decodeCSRFCookie(cookie, opts)   // Validate (cookie secret, cookie-expire), decrypt, unmarshal
          if err != nil { continue }
          return csrf, nil
      }
      return nil, error

  the FIRST request cookie of that name that validates and decodes.  The decrypt + unmarshal step
  (AES-CFB, msgpack) is the parameter `decode`.
-/
import O2P.Model.Serve
import O2P.Model.Signed

namespace O2P.ComposeCsrf
open O2P

/-- `decodeCSRFCookie`: validate under the cookie secret / cookie-expire, then decrypt + unmarshal -/
def csrfDecode (mac : Str → Str → Str) (decode : Str → Option CSRF) (secret : Str) (expireNs nowNs : Int)
    (name value : Str) : Option CSRF :=
  match validate mac name value secret expireNs nowNs with
  | none => none
  | some (bytes, _) => decode bytes

/-- `LoadCSRFCookie`: the FIRST request cookie of that name that decodes without error -/
def csrfLoad (mac : Str → Str → Str) (decode : Str → Option CSRF) (secret : Str) (expireNs nowNs : Int)
    (cookies : List (Str × Str)) (name : Str) : Option CSRF :=
  cookies.findSome? (fun c => if c.1 = name then csrfDecode mac decode secret expireNs nowNs name c.2 else none)

end O2P.ComposeCsrf
