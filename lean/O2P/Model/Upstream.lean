/-
  O2P.Model.Upstream — executable model of oauth2-proxy's upstream selection
  (`pkg/upstream/proxy.go`, `pkg/upstream/rewrite.go`, `pkg/upstream/http.go`).

  What is modelled (Go name → Lean name)
  * `options.Upstream{ID,Path,RewriteTarget}`            → `Upstream`
  * comparator closure inside `sortByPathLongest`        → `Upstream.less`
  * any result `sort.Slice` may produce (unstable sort)  → `Upstream.Admissible`
  * a deterministic admissible choice (stable insertion sort; this is also what
    Go's pdqsort does for slices of length ≤ 12)        → `Upstream.sortUpstreams`
  * `registerSimpleHandler` / `registerRewriteHandler` matcher of one route
                                                         → `Upstream.routeMatches`
  * gorilla/mux `Router.Match` over the registered routes (registration order, first
    match wins)                                          → `Upstream.firstMatch`
  * `multiUpstreamProxy.ServeHTTP` after mux's clean-path check, including the final
    catch-all of `registerTrailingSlashHandler`          → `Upstream.route`
  * `url.ParseQuery`, `url.Values.Add/Encode`, `splitPathAndQuery`, `rewritePath`
            → `parseQuery`, `Values.add`, `encode`, `rewriteQuery`, `rewriteError`,
              `upstreamRequestURI?` (`none` = 500 error page, nothing forwarded), …
  * `setProxyDirector` + `url.URL.RequestURI()`          → `outgoingTarget`

  What is a PARAMETER (never modelled)
  * the regex engine: `rx pattern path : Bool` (= `regexp.MatchString`) and the result of
    `ReplaceAllString` (the string `newURI` is an input of `rewriteQuery`);
  * query/path escaping in the theorems (`esc`, `unesc`, `escPath`); concrete versions
    `queryEscape`, `queryUnescape`, `pathEscape` are provided for the driver.

  gorilla/mux facts used (mux v1.8.1, `mux.go`/`route.go`/`regexp.go`):
  * `Router.Match` tries `r.routes` in registration order and returns the first match;
    `NotFoundHandler` is nil so "no route" ⇒ `http.NotFoundHandler()` (404).
  * `PathPrefix(p)` compiles `^` + `QuoteMeta(p)`; `Path(p)` compiles `^` + `QuoteMeta(p)` + `$`
    (ASSUMPTION: the configured path contains no `{`/`}` — mux template syntax — and is
    valid UTF-8; otherwise the route is a template / fails to compile).
  * `addRegexpMatcher` rejects a non-empty template that does not start with `/`
    (`mux: path must start with a slash`); the error is stored in the route, `.Handler`
    is then a no-op and `Route.Match` returns false forever.  `NewProxy` never looks at
    that error, so such an upstream is silently unreachable.  Modelled by `muxPathOK`.
  * `Router.ServeHTTP` first redirects (301) when `cleanPath(path) ≠ path`; `route` below
    describes what happens AFTER that check, i.e. for an already clean path.
    `serve` adds the check with the cleaner as a parameter; `cleanPath` is a model of it.
  * With `ProxyRawPath` (`UseEncodedPath`) mux matches on `URL.EscapedPath()` while the rewrite
    matcher and the trailing-slash test look at the decoded `URL.Path`.  The model has a single
    `path`; it is exact when `ProxyRawPath = false` (default) or when the request path needs no
    escaping (`RawPath = ""`).  (The oracle `rx` can absorb the decoding for the rewrite
    matcher, the trailing-slash re-escaping cannot be expressed.)
-/
import O2P.Basic

namespace O2P

/-- `options.Upstream`, restricted to the fields that influence routing. `rewriteTarget = []`
    means "no rewrite" (Go: `RewriteTarget == ""`). -/
structure Upstream where
  id : Str
  path : Str
  rewriteTarget : Str := []
  deriving DecidableEq, Repr, Inhabited

namespace Upstream

/-- Go: `upstream.RewriteTarget != ""` -/
def isRewrite (u : Upstream) : Bool := !u.rewriteTarget.isEmpty

/-- The `less(i, j)` closure of `sortByPathLongest` (`len` = byte length). -/
def less (a b : Upstream) : Bool :=
  if a.isRewrite && b.isRewrite then decide (a.path.length > b.path.length)
  else if a.isRewrite && !b.isRewrite then true
  else if !a.isRewrite && b.isRewrite then false
  else decide (a.path.length > b.path.length)

/-- No inversion w.r.t. the comparator: no later element is `less` than an earlier one. -/
def Ordered (l : List Upstream) : Prop := l.Pairwise (fun a b => less b a = false)

/-- Every slice `sort.Slice(in, less)` may legally leave behind: a permutation of the input
    without inversions.  (`sort.Slice` is not stable, so the order of equivalent elements
    is unspecified.) -/
def Admissible (sorted input : List Upstream) : Prop :=
  sorted.Perm input ∧ Ordered sorted

instance (l : List Upstream) : Decidable (Ordered l) := by unfold Ordered; infer_instance
instance (sorted input : List Upstream) : Decidable (Admissible sorted input) := by
  unfold Admissible; infer_instance

/-- stable insertion: `a` goes in front of the first element that is not `less` than it -/
def insertUp (a : Upstream) : List Upstream → List Upstream
  | [] => [a]
  | b :: l => if less b a then b :: insertUp a l else a :: b :: l

/-- Stable insertion sort by `less`; an executable admissible order.  For `len ≤ 12`
    this is exactly the order Go's `sort.Slice` produces (pdqsort falls back to a stable
    insertion sort for short slices). -/
def sortUpstreams : List Upstream → List Upstream
  | [] => []
  | a :: l => insertUp a (sortUpstreams l)

/-- gorilla/mux only accepts an empty path template or one starting with `/`. -/
def muxPathOK : Str → Bool
  | [] => true
  | c :: _ => c == '/'

/-- Does the route registered for `u` match a request whose (clean) path is `path`?
    `rx pattern s` is the regex oracle (`regexp.MustCompile(pattern).MatchString(s)`). -/
def routeMatches (rx : Str → Str → Bool) (u : Upstream) (path : Str) : Bool :=
  if u.isRewrite then rx u.path path
  else if !muxPathOK u.path then false
  else if hasSuffix ['/'] u.path then hasPrefix u.path path
  else decide (path = u.path)

/-- mux `Router.Match` over the upstream routes registered in the order `sorted`. -/
def firstMatch (rx : Str → Str → Bool) (sorted : List Upstream) (path : Str) : Option Upstream :=
  sorted.find? (fun u => routeMatches rx u path)

/-- Outcome of `multiUpstreamProxy.ServeHTTP` for a clean path. -/
inductive Decision where
  | upstream (u : Upstream)   -- request handed to this upstream's handler
  | redirect301               -- trailing-slash handler: 301 to `req.URL.String() + "/"`
  | notFound                  -- `http.NotFoundHandler()`
  deriving DecidableEq, Repr

/-- `multiUpstreamProxy.ServeHTTP` for a request whose path is already clean: upstream routes in
    order `sorted`, then the catch-all of `registerTrailingSlashHandler` (which calls
    `serveMux.Match` on `path + "/"`; the catch-all itself cannot match a path ending in `/`,
    so that inner `Match` is `firstMatch` again). -/
def route (rx : Str → Str → Bool) (sorted : List Upstream) (path : Str) : Decision :=
  match firstMatch rx sorted path with
  | some u => .upstream u
  | none =>
    if hasSuffix ['/'] path then .notFound
    else if (firstMatch rx sorted (path ++ ['/'])).isSome then .redirect301
    else .notFound

/-- `Location` written by the trailing-slash handler: `req.URL.String() + "/"`.
    NOTE (bug-like): the slash is appended to the *whole* URL string, i.e. after the query:
    `/foo?x=1` ↦ `/foo?x=1/`, whose path is still `/foo`. -/
def slashRedirectLocation (reqURLString : Str) : Str := reqURLString ++ ['/']

/-! ### mux `cleanPath` (pre-routing canonicalisation) -/

/-- process path segments like `path.Clean` does for a rooted path: `acc` is the reversed stack -/
def cleanSegs : List Str → List Str → List Str
  | [], acc => acc.reverse
  | s :: rest, acc =>
    if s = [] ∨ s = ['.'] then cleanSegs rest acc
    else if s = ['.', '.'] then cleanSegs rest acc.tail
    else cleanSegs rest (s :: acc)

/-- `path.Clean` for a path that starts with `/`. -/
def pathCleanRooted (p : Str) : Str :=
  '/' :: joinWith '/' (cleanSegs (splitOn '/' p) [])

/-- gorilla/mux `cleanPath`. -/
def cleanPath (p : Str) : Str :=
  if p = [] then ['/'] else
  let p' := if p.head? = some '/' then p else '/' :: p
  let np := pathCleanRooted p'
  if hasSuffix ['/'] p' && np != ['/'] then np ++ ['/'] else np

/-- Outcome of `Router.ServeHTTP` including the clean-path redirect. -/
inductive Served where
  | cleanRedirect (location : Str)   -- 301 to the cleaned path
  | routed (d : Decision)
  deriving DecidableEq, Repr

/-- `mux.Router.ServeHTTP` with the cleaner as a parameter (`clean := cleanPath` for the real one). -/
def serve (clean : Str → Str) (rx : Str → Str → Bool) (sorted : List Upstream) (path : Str) : Served :=
  if clean path ≠ path then .cleanRedirect (clean path) else .routed (route rx sorted path)


/-! ## Query handling of `rewrite.go` (still in namespace `O2P.Upstream`) -/

/-- Go `url.Values` (`map[string][]string`) as an association list; the keys are meant to be
    pairwise distinct (`Values.add` maintains that), the order of the entries is irrelevant
    (Go maps have none; `encode` sorts). -/
abbrev Values := List (Str × List Str)

namespace Values

/-- `v[key]` (nil ↦ `[]`) : first entry with that key -/
def lookup (k : Str) : Values → List Str
  | [] => []
  | (k', vs) :: rest => if k' = k then vs else lookup k rest

/-- `url.Values.Add(key, value)`: append to the key's list. -/
def add (k v : Str) : Values → Values
  | [] => [(k, [v])]
  | (k', vs) :: rest => if k' = k then (k', vs ++ [v]) :: rest else (k', vs) :: add k v rest

/-- add a sequence of pairs, left to right -/
def addAll (ps : List (Str × Str)) (m : Values) : Values :=
  ps.foldl (fun acc kv => add kv.1 kv.2 acc) m

/-- build a `Values` from pairs in order of appearance (what `ParseQuery` does) -/
def ofPairs (ps : List (Str × Str)) : Values := addAll ps []

def keys (m : Values) : List Str := m.map (·.1)

end Values

/-- byte-wise lexicographic `≤` on strings (Go string comparison) -/
def strLe : Str → Str → Bool
  | [], _ => true
  | _ :: _, [] => false
  | a :: as, b :: bs => if a < b then true else if b < a then false else strLe as bs

def insertKey (e : Str × List Str) : Values → Values
  | [] => [e]
  | f :: l => if strLe e.1 f.1 then e :: f :: l else f :: insertKey e l

/-- `slices.Sort(keys)` lifted to the entries -/
def sortByKey : Values → Values
  | [] => []
  | e :: l => insertKey e (sortByKey l)

/-- the `k=v` pieces that `Values.Encode` writes, in output order -/
def encodePieces (esc : Str → Str) (m : Values) : List Str :=
  (sortByKey m).flatMap (fun e => e.2.map (fun v => esc e.1 ++ '=' :: esc v))

/-- `url.Values.Encode()` with `esc = url.QueryEscape`. -/
def encode (esc : Str → Str) (m : Values) : Str := joinWith '&' (encodePieces esc m)

/-- `strings.Cut(s, sep)` on a one-byte separator: before, after, found (via `splitFirst`). -/
def cut (sep : Char) (s : Str) : Str × Str :=
  match splitFirst sep s with
  | (a, some b) => (a, b)
  | (a, none) => (a, [])

/-- one `&`-separated piece of a query string: `none` = skipped silently (empty),
    `some (none)` = error (semicolon / bad escape), `some (some kv)` = parsed pair -/
def parsePiece (unesc : Str → Option Str) (piece : Str) : Option (Option (Str × Str)) :=
  if piece.contains ';' then some none
  else if piece = [] then none
  else
    let (k, v) := cut '=' piece
    match unesc k with
    | none => some none
    | some k' =>
      match unesc v with
      | none => some none
      | some v' => some (some (k', v'))

/-- `url.ParseQuery(s)`: the pairs that were parsed successfully, in order, and whether an
    error was reported.  (`url.ParseQuery` keeps going after an error and returns both; `URL.Query()`
    drops the error, `splitPathAndQuery` drops the values.) `unesc = url.QueryUnescape`. -/
def parseQuery (unesc : Str → Option Str) (s : Str) : List (Str × Str) × Bool :=
  (splitOn '&' s).foldr (fun piece (acc : List (Str × Str) × Bool) =>
    match parsePiece unesc piece with
    | none => acc
    | some none => (acc.1, true)
    | some (some kv) => (kv :: acc.1, acc.2)) ([], false)

/-- `URL.Query()` : parse, silently discarding malformed pairs -/
def urlQuery (unesc : Str → Option Str) (rawQuery : Str) : Values :=
  Values.ofPairs (parseQuery unesc rawQuery).1

/-- the `error` result of `splitPathAndQuery(originalQuery, raw)`: non-nil iff `raw` has a query
    part and `url.ParseQuery` rejects it (a `;` or a bad `%`-escape in some piece).
    History: before the `fix:` commit "report an unparseable rewritten query …" the code executed
    `return "", "", nil` here, so the caller carried on with an empty path and the upstream received
    `/`; now it is `return "", "", err` and `rewritePath` answers with the 500 error page. -/
def rewriteError (unesc : Str → Option Str) (newURI : Str) : Bool :=
  match splitFirst '?' newURI with
  | (_, none) => false
  | (_, some q) => (parseQuery unesc q).2

/-- the (path, values) results of `splitPathAndQuery(originalQuery, raw)` at the level of `Values`:
    the new path and the merged values.  When `rewriteError` holds the Go code returns
    `"", "", err`: modelled as `([], [])` here (the values are then never used, see
    `upstreamRequestURI?`). -/
def rewriteQuery (unesc : Str → Option Str) (orig : Values) (newURI : Str) : Str × Values :=
  match splitFirst '?' newURI with
  | (p, none) => (p, orig)
  | (p, some q) =>
    match parseQuery unesc q with
    | (_, true) => ([], [])
    | (pairs, false) => (p, Values.addAll pairs orig)

/-- `splitPathAndQuery` with the string results (path, RawQuery). -/
def splitPathAndQuery (esc : Str → Str) (unesc : Str → Option Str) (orig : Values) (newURI : Str) :
    Str × Str :=
  let r := rewriteQuery unesc orig newURI
  (r.1, encode esc r.2)

/-- `reqURL.String()` for an origin-form request URL (no scheme/host/fragment) whose `Path` has just
    been overwritten: escaped path, then `?RawQuery` if non-empty or `ForceQuery`.  `escPath` is
    `URL.EscapedPath()` (+ the `./` guard of `URL.String`) as a function of the path. -/
def urlString (escPath : Str → Str) (forceQuery : Bool) (path rawQuery : Str) : Str :=
  escPath path ++ (if forceQuery || rawQuery != [] then '?' :: rawQuery else [])

/-- `URL.RawQuery` of an origin-form request target: everything after the first `?`. -/
def rawQueryOf (requestURI : Str) : Str := (cut '?' requestURI).2

/-- `URL.ForceQuery` as set by `url.ParseRequestURI`: the target ends in `?` and that is its
    only `?`. -/
def forceQueryOf (requestURI : Str) : Bool :=
  hasSuffix ['?'] requestURI && requestURI.count '?' == 1

/-- `rewritePath` middleware: new `req.RequestURI` from the replaced string `newURI`
    (= `rewriteRegExp.ReplaceAllString(reqURL.Path, rewriteTarget)`, a parameter) and the
    request's origin-form `RequestURI` (only its query part is used). -/
def rewriteRequestURI (esc : Str → Str) (unesc : Str → Option Str) (escPath : Str → Str)
    (requestURI newURI : Str) : Str :=
  let r := splitPathAndQuery esc unesc (urlQuery unesc (rawQueryOf requestURI)) newURI
  urlString escPath (forceQueryOf requestURI) r.1 r.2

/-! ## `setProxyDirector` -/

/-- Request target written on the wire by `httputil.ReverseProxy` after `setProxyDirector`:
    the director sets `URL.Opaque = req.RequestURI`, `RawQuery = ""`, `ForceQuery = false`; the
    transport then writes `URL.RequestURI()`, i.e. `Opaque` (prefixed with `scheme:` when it starts
    with `//`), or — when `Opaque` is empty — the escaped `URL.Path` (`/` if that is empty too).
    `fallback` is that escaped-path value; it only matters when `requestURI = ""`. -/
def outgoingTarget (scheme : Str) (fallback : Str) (requestURI : Str) : Str :=
  if requestURI = [] then (if fallback = [] then ['/'] else fallback)
  else if hasPrefix ['/', '/'] requestURI then scheme ++ ':' :: requestURI
  else requestURI

/-- `Host` header sent to the upstream (`setProxyUpstreamHostHeader`): the incoming `req.Host`
    unless `PassHostHeader` is explicitly `false` (`some false`), then the target URL's host.
    `passHostHeader = none` models the nil pointer (default: pass). -/
def outgoingHost (passHostHeader : Option Bool) (incomingHost targetHost : Str) : Str :=
  if passHostHeader = some false then targetHost else incomingHost

/-- `req.RequestURI` as seen by the director: untouched for a plain upstream, rewritten by the
    `rewritePath` middleware for a rewrite upstream (`newURI` = result of the regex replace). -/
def upstreamRequestURI (esc : Str → Str) (unesc : Str → Option Str) (escPath : Str → Str)
    (u : Upstream) (requestURI newURI : Str) : Str :=
  if u.isRewrite then rewriteRequestURI esc unesc escPath requestURI newURI else requestURI

/-- What the `rewritePath` middleware hands on: `none` = it rendered the 500 error page
    ("Could not parse rewrite URI") and the request is NOT forwarded; `some t` = the request goes on
    to the upstream handler with `req.RequestURI = t`.  (The other error exit of `rewritePath`,
    `url.ParseRequestURI(req.RequestURI)` failing, cannot happen for a request that `net/http`'s
    server accepted, because the server parses the target with the same function.) -/
def upstreamRequestURI? (esc : Str → Str) (unesc : Str → Option Str) (escPath : Str → Str)
    (u : Upstream) (requestURI newURI : Str) : Option Str :=
  if u.isRewrite then
    (if rewriteError unesc newURI then none
     else some (rewriteRequestURI esc unesc escPath requestURI newURI))
  else some requestURI

/-! ## Concrete escaping (for the driver; theorems are parametric in `esc`/`unesc`) -/

def hexDigit (n : Nat) : Char :=
  if n < 10 then Char.ofNat (48 + n) else Char.ofNat (55 + n)   -- upper case

def isAlnum (c : Char) : Bool :=
  ('a' ≤ c && c ≤ 'z') || ('A' ≤ c && c ≤ 'Z') || ('0' ≤ c && c ≤ '9')

def pctEncode (c : Char) : Str := ['%', hexDigit (c.toNat / 16 % 16), hexDigit (c.toNat % 16)]

/-- `url.QueryEscape` -/
def queryEscape (s : Str) : Str :=
  s.flatMap (fun c =>
    if isAlnum c || c == '-' || c == '_' || c == '.' || c == '~' then [c]
    else if c == ' ' then ['+'] else pctEncode c)

/-- `escape(s, encodePath)` -/
def pathEscape (s : Str) : Str :=
  s.flatMap (fun c =>
    if isAlnum c || "-_.~$&+,/:;=@".toList.contains c then [c] else pctEncode c)

/-- what `URL.String()` writes for the path of a URL without scheme/host whose `RawPath` is
    stale: `escape(Path, encodePath)`, guarded by `./` when the first segment contains a colon
    (RFC 3986 §4.2). -/
def urlEscapedPath (p : Str) : Str :=
  let e := pathEscape p
  if (cut '/' e).1.contains ':' then '.' :: '/' :: e else e

def unhex (c : Char) : Option Nat :=
  if '0' ≤ c && c ≤ '9' then some (c.toNat - 48)
  else if 'a' ≤ c && c ≤ 'f' then some (c.toNat - 87)
  else if 'A' ≤ c && c ≤ 'F' then some (c.toNat - 55)
  else none

/-- `url.QueryUnescape` -/
def queryUnescape : Str → Option Str
  | [] => some []
  | '%' :: a :: b :: rest =>
    match unhex a, unhex b with
    | some x, some y => (queryUnescape rest).map (Char.ofNat (16 * x + y) :: ·)
    | _, _ => none
  | '%' :: _ => none
  | '+' :: rest => (queryUnescape rest).map (' ' :: ·)
  | c :: rest => (queryUnescape rest).map (c :: ·)

end Upstream
end O2P
