/-
  O2P.Model.Authz — executable model of oauth2-proxy's authorisation rules (property C08).

  Go sources modelled (repo @0f7befa):
    * validator.go            newValidatorImpl closure, isEmailValidWithDomains, UserMap.IsValid
                              → `emailValidWith` / `emailValid`, `isEmailValidWithDomains`
    * providers/provider_default.go   (*ProviderData).Authorize        → `groupsOK`
    * oauthproxy.go           authOnlyAuthorize, extractAllowedEntities, checkAllowedGroups,
                              checkAllowedEmailDomains, checkAllowedEmails → `authOnly`, `extractAllowed`, …
                              getAuthenticatedSession (authorisation part) → `getAuthenticatedSessionAuthz`
    * pkg/util/util.go        IsEndpointAllowed, isHostnameAllowed, SplitHostPort, validOptionalPort
      net/url                 (*URL).Hostname / Port = splitHostPort, validOptionalPort
                              → `Authz.splitHostPort (allowStar)`, `Authz.isHostnameAllowed`,
                                `Authz.isEndpointAllowed`   (own copy, independent of other models)

  Modelling notes
    * `strings.ToLower` is a parameter `lw` of `emailValidWith`; `emailValid` instantiates it with the
      ASCII lower-casing `O2P.lower` (Go's ToLower is ASCII lower-casing on ASCII strings; on
      non-ASCII input it additionally applies Unicode case mapping, which the byte model does not).
    * Go sets (`map[string]struct{}`) are lists; only membership and emptiness are used.
    * The request query is the *decoded* `url.Values` as a list of (key, value) pairs in arrival
      order (`req.URL.Query()`).
  Core Lean only.
-/
import O2P.Basic

namespace O2P.Authz

/-! ## validator.go -/

/-- `atoms[len(atoms)-1]` for `atoms := strings.Split(email, "@")` -/
def lastAtom (email : Str) : Str := (splitOn '@' email).getLastD []

/-- one iteration of the loop of `isEmailValidWithDomains` -/
def domainMatches (email domain : Str) : Bool :=
  hasSuffix ('@' :: domain) email ||
  (hasPrefix ['.'] domain && hasSuffix domain (lastAtom email)) ||
  (hasPrefix ['*', '.'] domain && hasSuffix (domain.drop 1) (lastAtom email))

/-- `isEmailValidWithDomains(email, allowedDomains)` -/
def isEmailValidWithDomains (email : Str) (domains : List Str) : Bool :=
  domains.any (domainMatches email)

/-- the in-place rewrite of `domains` in `newValidatorImpl`: everything but "*" is lower-cased -/
def normDomains (lw : Str → Str) (domains : List Str) : List Str :=
  domains.map (fun d => if d = ['*'] then d else lw d)

def allowAll (domains : List Str) : Bool := domains.contains ['*']

/-- the validator closure returned by `newValidatorImpl(domains, usersFile, …)`.
    `fileSet` = current content of the `UserMap` (entries are stored trimmed and lower-cased by
    `LoadAuthenticatedEmailsFile`). -/
def emailValidWith (lw : Str → Str) (domains : List Str) (fileSet : List Str) (email : Str) : Bool :=
  if email = [] then false
  else
    let e := lw email
    let valid := isEmailValidWithDomains e (normDomains lw domains)
    let valid := if !valid then fileSet.contains e else valid
    if allowAll domains then true else valid

/-- `emailValidWith` with ASCII lower-casing -/
def emailValid (domains : List Str) (fileSet : List Str) (email : Str) : Bool :=
  emailValidWith lower domains fileSet email

/-! ## provider Authorize -/

/-- `(*ProviderData).Authorize`: `allowed` = the configured allowed groups -/
def groupsOK (allowed : List Str) (groups : List Str) : Bool :=
  allowed.isEmpty || groups.any (fun g => allowed.contains g)

/-! ## host / port splitting (net/url and pkg/util) -/

/-- split at the last ':' → (before, after) -/
def splitLastColon : Str → Option (Str × Str)
  | [] => none
  | c :: cs =>
    match splitLastColon cs with
    | some (a, b) => some (c :: a, b)
    | none => if c = ':' then some ([], cs) else none

/-- `validOptionalPort(":" ++ tail)`; `allowStar` = pkg/util variant that also accepts ":*" -/
def validPortTail (allowStar : Bool) (tail : Str) : Bool :=
  (allowStar && tail = ['*']) || tail.all isDigit

/-- `url.splitHostPort` (`allowStar = false`) and `util.SplitHostPort` (`allowStar = true`) -/
def splitHostPort (allowStar : Bool) (hostport : Str) : Str × Str :=
  let hp : Str × Str :=
    match splitLastColon hostport with
    | some (a, b) => if validPortTail allowStar b then (a, b) else (hostport, [])
    | none => (hostport, [])
  let host := hp.1
  let host := if hasPrefix ['['] host && hasSuffix [']'] host then (host.drop 1).dropLast else host
  (host, hp.2)

/-- `(*URL).Hostname()` of a URL whose `Host` is `h` -/
def hostnameOf (h : Str) : Str := (splitHostPort false h).1
/-- `(*URL).Port()` of a URL whose `Host` is `h` -/
def portOf (h : Str) : Str := (splitHostPort false h).2

/-- `util.isHostnameAllowed` -/
def isHostnameAllowed (hostname allowedHost : Str) : Bool :=
  hostname = trimPrefix ['.'] allowedHost ||
  hostname = trimPrefix ['*', '.'] allowedHost ||
  (hasPrefix ['.'] allowedHost && hasSuffix allowedHost hostname) ||
  (hasPrefix ['*', '.'] allowedHost && hasSuffix (allowedHost.drop 1) hostname)

/-- body of the loop of `util.IsEndpointAllowed` for one allowed domain -/
def endpointMatches (hostname port allowedDomain : Str) : Bool :=
  let ahp := splitHostPort true allowedDomain
  ahp.1 ≠ [] && isHostnameAllowed hostname ahp.1 &&
    (ahp.2 = ['*'] || ahp.2 = port || (ahp.2 = [] && port = []))

/-- `util.IsEndpointAllowed(endpoint, allowedDomains)` with `endpoint.Host = host` -/
def isEndpointAllowed (host : Str) (allowedDomains : List Str) : Bool :=
  -- since the fix "never treat a redirect URL without a host as being on an allowed domain":
  -- an empty hostname is never allowed
  hostnameOf host ≠ [] && allowedDomains.any (endpointMatches (hostnameOf host) (portOf host))

/-! ## authOnlyAuthorize -/

/-- the part of `sessions.SessionState` the authorisation rules look at -/
structure Sess where
  email : Str
  groups : List Str
  deriving Repr, DecidableEq

/-- `extractAllowedEntities(req, key)` (as a list; duplicates are harmless) -/
def extractAllowed (query : List (Str × Str)) (key : Str) : List Str :=
  ((query.filter (fun kv => kv.1 = key)).flatMap (fun kv => splitOn ',' kv.2)).filter (fun e => e ≠ [])

def checkAllowedGroups (query : List (Str × Str)) (s : Sess) : Bool :=
  let a := extractAllowed query "allowed_groups".toList
  a.isEmpty || s.groups.any (fun g => a.contains g)

def checkAllowedEmailDomains (query : List (Str × Str)) (s : Sess) : Bool :=
  let a := extractAllowed query "allowed_email_domains".toList
  a.isEmpty ||
    (match splitOn '@' s.email with
     | [_, dom] => isEndpointAllowed dom a
     | _ => false)

def checkAllowedEmails (query : List (Str × Str)) (s : Sess) : Bool :=
  let a := extractAllowed query "allowed_emails".toList
  a.isEmpty || a.contains s.email

/-- `authOnlyAuthorize(req, s)`; `true` ⇒ the /oauth2/auth endpoint answers 202, `false` ⇒ 403 -/
def authOnly (query : List (Str × Str)) (sess : Option Sess) : Bool :=
  match sess with
  | none => true
  | some s => checkAllowedGroups query s && checkAllowedEmailDomains query s && checkAllowedEmails query s

/-! ## getAuthenticatedSession (authorisation part) -/

inductive AuthzResult where
  /-- `return session, nil` -/
  | ok (s : Option Sess)
  /-- `return nil, ErrNeedsLogin` -/
  | needsLogin
  /-- `return nil, ErrAccessDenied`; `cleared` = `ClearSessionCookie` was called first -/
  | accessDenied (cleared : Bool)
  deriving Repr, DecidableEq

/-- `getAuthenticatedSession`: `bypass` = `p.IsAllowedRequest(req)`, `emailValid` = `p.Validator`,
    `groupsOK` = `p.provider.Authorize` on the session's groups. -/
def getAuthenticatedSessionAuthz (bypass : Bool) (sess : Option Sess)
    (emailValid : Str → Bool) (groupsOK : List Str → Bool) : AuthzResult :=
  if bypass then .ok sess
  else match sess with
    | none => .needsLogin
    | some s =>
      let invalidEmail := s.email ≠ [] && !emailValid s.email
      let authorized := groupsOK s.groups
      if invalidEmail || !authorized then .accessDenied true else .ok (some s)

end O2P.Authz
