/-
  O2P.Lemmas.Signed — helper lemmas about the signed-cookie model (`O2P/Model/Signed.lean`).
-/
import O2P.Model.Signed
import O2P.Lemmas.Base64
import O2P.Lemmas.Decimal

namespace O2P

/-! ### time arithmetic -/

theorem effSec_eq {t : Int} (h1 : -9223372098990372608 ≤ t) (h2 : t ≤ 9223371974719179007) :
    effSec t = t := by
  unfold effSec wrap64 unixToInternal; omega

theorem effSec_wrapped {t : Int} (h1 : 9223371974719179007 < t) (h2 : t ≤ 9223372036854775807) :
    effSec t = t - 18446744073709551616 := by
  unfold effSec wrap64 unixToInternal; omega

theorem effSec_le {t : Int} (h1 : -9223372036854775808 ≤ t) (h2 : t ≤ 9223372036854775807) :
    effSec t ≤ t := by
  by_cases h : t ≤ 9223371974719179007
  · rw [effSec_eq (by omega) h]; exact Int.le_refl _
  · rw [effSec_wrapped (by omega) h2]; omega

/-! ### splitting an issued cookie -/

theorem splitOn_three (a b c : Str) (ha : '|' ∉ a) (hb : '|' ∉ b) (hc : '|' ∉ c) :
    splitOn '|' (a ++ '|' :: (b ++ '|' :: c)) = [a, b, c] := by
  rw [splitOn_append_sep _ _ _ ha, splitOn_append_sep _ _ _ hb, splitOn_of_not_mem _ _ hc]

theorem allDigits_no_pipe {s : Str} (h : AllDigits s) : '|' ∉ s := by
  intro hc
  have := isDigit_iff.mp (h _ hc)
  revert this; decide

theorem intToStr_no_pipe (i : Int) : '|' ∉ intToStr i := by
  unfold intToStr
  split
  · intro hc
    rcases List.mem_cons.mp hc with h | h
    · revert h; decide
    · exact allDigits_no_pipe (natToStr_allDigits _) h
  · exact allDigits_no_pipe (natToStr_allDigits _)

theorem cookieSignature_no_pipe (mac : Str → Str → Str) (seed : Str) (args : List Str) :
    '|' ∉ cookieSignature mac seed args :=
  b64Encode_no_pipe _ _ _

theorem signedValue_split (mac : Str → Str → Str) (seed name value : Str) (ts : Int) :
    splitOn '|' (signedValue mac seed name value ts) =
      [b64Encode true true value, intToStr ts,
       cookieSignature mac seed [name, b64Encode true true value, intToStr ts]] := by
  unfold signedValue
  exact splitOn_three _ _ _ (b64Encode_no_pipe _ _ _) (intToStr_no_pipe _)
    (cookieSignature_no_pipe _ _ _)

/-! ### signature check -/

/-- `checkHmac` against an expected value that is itself an encoding: the presented
    signature must decode (leniently) to the byte-truncated expected tag. -/
theorem checkHmac_encode (input x : Str) :
    checkHmac input (b64Encode true true x) = true ↔
      b64Decode true true input = some (x.map truncByte) := by
  unfold checkHmac
  rw [b64Decode_encode_gen]
  cases h : b64Decode true true input with
  | none => simp
  | some i => simp

theorem checkSignature_iff (mac : Str → Str → Str) (sig seed name p0 p1 : Str) :
    checkSignature mac sig seed [name, p0, p1] = true ↔
      b64Decode true true sig = some ((mac seed (name ++ p0 ++ p1)).map truncByte) := by
  unfold checkSignature cookieSignature
  rw [checkHmac_encode]
  simp

/-- the exact acceptance condition of `validate` -/
theorem validate_eq_some_iff (mac : Str → Str → Str) (name cookieValue seed : Str)
    (expireNs nowNs : Int) (v : Str) (t : Int) :
    validate mac name cookieValue seed expireNs nowNs = some (v, t) ↔
      ∃ p0 p1 p2, splitOn '|' cookieValue = [p0, p1, p2]
        ∧ b64Decode true true p2 = some ((mac seed (name ++ p0 ++ p1)).map truncByte)
        ∧ atoi p1 = some t
        ∧ inWindow t expireNs nowNs
        ∧ b64Decode true true p0 = some v := by
  unfold validate
  split
  · rename_i p0 p1 p2 hsp
    constructor
    · intro h
      split at h
      · rename_i hsig
        split at h
        · rename_i ts hat
          split at h
          · rename_i hw
            split at h
            · rename_i v' hv
              simp only [Option.some.injEq, Prod.mk.injEq] at h
              obtain ⟨rfl, rfl⟩ := h
              exact ⟨p0, p1, p2, hsp, (checkSignature_iff ..).mp hsig, hat, hw, hv⟩
            · simp at h
          · simp at h
        · simp at h
      · simp at h
    · rintro ⟨q0, q1, q2, hq, hsig, hat, hw, hv⟩
      rw [hsp] at hq
      simp only [List.cons.injEq, and_true] at hq
      obtain ⟨rfl, rfl, rfl⟩ := hq
      rw [if_pos ((checkSignature_iff ..).mpr hsig), hat]
      simp only
      rw [if_pos hw, hv]
  · rename_i hne
    constructor
    · intro h; simp at h
    · rintro ⟨q0, q1, q2, hq, _⟩
      exact absurd hq (hne q0 q1 q2)

theorem validate_eq_none_of_parts (mac : Str → Str → Str) (name cookieValue seed : Str)
    (expireNs nowNs : Int) (h : ∀ p0 p1 p2, splitOn '|' cookieValue ≠ [p0, p1, p2]) :
    validate mac name cookieValue seed expireNs nowNs = none := by
  cases hv : validate mac name cookieValue seed expireNs nowNs with
  | none => rfl
  | some r =>
    obtain ⟨v, t⟩ := r
    obtain ⟨p0, p1, p2, hsp, _⟩ := (validate_eq_some_iff ..).mp hv
    exact absurd hsp (h p0 p1 p2)

/-! ### SecretBytes / nonce helpers -/

theorem secretBytes_cases (secret : Str) :
    secretBytes secret = secret ∨
      (b64Decode true false (trimRightEq secret) = some (secretBytes secret) ∧
        ((secretBytes secret).length = 16 ∨ (secretBytes secret).length = 24
          ∨ (secretBytes secret).length = 32)) := by
  unfold secretBytes
  split
  · rename_i b hb
    split
    · rename_i hl; exact .inr ⟨hb, hl⟩
    · exact .inl rfl
  · exact .inl rfl

theorem checkNonce_iff (sha : Str → Str) (nonce : Option Str) (hashed : Str) :
    checkNonce sha nonce hashed = true ↔ hashed = hashNonce sha nonce := by
  simp [checkNonce, eq_comm]

theorem checkNonce_hashNonce (sha : Str → Str) (nonce : Option Str) :
    checkNonce sha nonce (hashNonce sha nonce) = true := by
  simp [checkNonce]

/-! ### a toy keyed hash for concrete instances -/

/-- 32 equal bytes depending on the key length and the message length only -/
def toyMac (k m : Str) : Str := List.replicate 32 (Char.ofNat ((k.length + 7 * m.length) % 256))

theorem toyMac_isBytes (k m : Str) : IsBytes (toyMac k m) := by
  intro c hc
  unfold toyMac at hc
  rw [List.mem_replicate] at hc
  rw [hc.2, toNat_ofNat_byte]
  exact Nat.mod_lt _ (by decide)

end O2P
