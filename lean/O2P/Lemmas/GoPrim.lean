/-
  O2P.Lemmas.GoPrim — lemmas about the primitives of O2P/Go/Prim.lean, used by the equivalence
  proofs between the regenerated definitions (O2P/Gen/Tr.lean) and the hand-written model.
-/
import O2P.Go.Prim

namespace O2P.Go

theorem forRange_ok {α ρ} (xs : List α) (body : α → Go.M (Option ρ)) (g : α → Option ρ)
    (h : ∀ x ∈ xs, body x = .ok (g x)) : Go.forRange xs body = .ok (xs.findSome? g) := by
  induction xs with
  | nil => rfl
  | cons x xs ih =>
    have hx := h x (by simp)
    have ih' := ih (fun y hy => h y (by simp [hy]))
    simp only [Go.forRange, hx, List.findSome?_cons]
    cases hg : g x with
    | some r => simp [bind, Except.bind, pure, Except.pure]
    | none => simp [bind, Except.bind, ih']

theorem findSome?_const {α ρ} (xs : List α) (p : α → Bool) (r : ρ) :
    xs.findSome? (fun x => if p x then some r else none) = if xs.any p then some r else none := by
  induction xs with
  | nil => simp
  | cons x xs ih => by_cases hp : p x <;> simp [hp, ih]

/-- a search loop whose only exit is `return r` for one constant `r` -/
theorem forRange_any {α ρ} (xs : List α) (p : α → Bool) (r : ρ) (body : α → Go.M (Option ρ))
    (h : ∀ x ∈ xs, body x = .ok (if p x then some r else none)) :
    Go.forRange xs body = .ok (if xs.any p then some r else none) := by
  rw [forRange_ok xs body (fun x => if p x then some r else none) h, findSome?_const]

/-- a loop with carried state whose body never returns and never panics is a fold -/
theorem forRangeS_fold {α ρ σ} (xs : List α) (s : σ) (body : α → σ → Go.M (Sum ρ σ)) (f : σ → α → σ)
    (h : ∀ x ∈ xs, ∀ s, body x s = .ok (.inr (f s x))) :
    Go.forRangeS xs s body = .ok (.inr (xs.foldl f s)) := by
  induction xs generalizing s with
  | nil => rfl
  | cons x xs ih =>
    have hx := h x (by simp) s
    simp only [Go.forRangeS, hx, List.foldl_cons]
    simp only [bind, Except.bind]
    exact ih _ (fun y hy => h y (by simp [hy]))

theorem isDigit_not (x : Char) : isDigit x = !(decide (x < '0') || decide ('9' < x)) := by
  unfold isDigit
  by_cases h1 : x < '0' <;> by_cases h2 : '9' < x <;> simp [h1, h2] <;> simp_all [Char.not_lt]

theorem all_isDigit (xs : Str) :
    xs.all isDigit = !(xs.any (fun b => decide (b < '0') || decide ('9' < b))) := by
  induction xs with
  | nil => simp
  | cons x xs ih => simp only [List.all_cons, List.any_cons, ih, isDigit_not, Bool.not_or]

end O2P.Go
