/-
  O2P.Lemmas.Headers — helper lemmas for the header-injection model (C07).
-/
import O2P.Model.Headers

namespace O2P.Hdr

/-! ## ASCII case mapping facts (finite table for bytes < 128, direct argument above) -/

/-- the conjunction of all per-character facts needed below -/
def CharP (c : Char) : Bool :=
  asciiUpper (asciiUpper c) == asciiUpper c && asciiLower (asciiLower c) == asciiLower c &&
  asciiUpper (asciiLower c) == asciiUpper c && asciiLower (asciiUpper c) == asciiLower c &&
  (!validHeaderFieldByte c || (validHeaderFieldByte (asciiUpper c) && validHeaderFieldByte (asciiLower c))) &&
  ((asciiUpper c == '-') == (c == '-')) && ((asciiLower c == '-') == (c == '-')) &&
  (validHeaderFieldByte (asciiLower c) == validHeaderFieldByte c)

set_option maxRecDepth 100000 in
/-- genuinely finite table: the 128 ASCII characters -/
theorem char_table : ∀ n : Fin 128, CharP (Char.ofNat n.val) = true := by
  decide

theorem toNat_le_of_le {a b : Char} (h : a ≤ b) : a.toNat ≤ b.toNat := by
  rw [Char.le_def, UInt32.le_iff_toNat_le] at h; exact h

theorem big_char (c : Char) (h : ¬ c.toNat < 128) :
    asciiUpper c = c ∧ asciiLower c = c ∧ validHeaderFieldByte c = false := by
  have hz : ¬ (c ≤ 'z') := fun hh => by have := toNat_le_of_le hh; simp at this; omega
  have hZ : ¬ (c ≤ 'Z') := fun hh => by have := toNat_le_of_le hh; simp at this; omega
  have h9 : ¬ (c ≤ '9') := fun hh => by have := toNat_le_of_le hh; simp at this; omega
  refine ⟨?_, ?_, ?_⟩
  · simp [asciiUpper, hz]
  · simp [asciiLower, hZ]
  · simp [validHeaderFieldByte, isDigit, hz, hZ, h9]
    repeat' constructor
    all_goals (rintro rfl; exact h (by decide))

theorem charP_all (c : Char) : CharP c = true := by
  by_cases h : c.toNat < 128
  · have := char_table ⟨c.toNat, h⟩
    simpa using this
  · obtain ⟨h1, h2, h3⟩ := big_char c h
    simp [CharP, h1, h2, h3]

theorem upper_upper (c : Char) : asciiUpper (asciiUpper c) = asciiUpper c := by
  have := charP_all c; simp [CharP] at this; exact this.1.1.1.1.1.1.1
theorem lower_lower (c : Char) : asciiLower (asciiLower c) = asciiLower c := by
  have := charP_all c; simp [CharP] at this; exact this.1.1.1.1.1.1.2
theorem upper_lower (c : Char) : asciiUpper (asciiLower c) = asciiUpper c := by
  have := charP_all c; simp [CharP] at this; exact this.1.1.1.1.1.2
theorem lower_upper (c : Char) : asciiLower (asciiUpper c) = asciiLower c := by
  have := charP_all c; simp [CharP] at this; exact this.1.1.1.1.2
theorem valid_upper (c : Char) (h : validHeaderFieldByte c = true) :
    validHeaderFieldByte (asciiUpper c) = true := by
  have := charP_all c; simp [CharP, h] at this; exact this.1.1.1.2.1
theorem valid_lower (c : Char) (h : validHeaderFieldByte c = true) :
    validHeaderFieldByte (asciiLower c) = true := by
  have := charP_all c; simp [CharP, h] at this; exact this.1.1.1.2.2
theorem upper_eq_dash (c : Char) : (asciiUpper c = '-') ↔ c = '-' := by
  have := charP_all c; simp [CharP] at this
  have h := this.1.1.2
  rw [Bool.eq_iff_iff] at h; simpa using h
theorem lower_eq_dash (c : Char) : (asciiLower c = '-') ↔ c = '-' := by
  have := charP_all c; simp [CharP] at this
  have h := this.1.2
  rw [Bool.eq_iff_iff] at h; simpa using h
theorem valid_lower_eq (c : Char) : validHeaderFieldByte (asciiLower c) = validHeaderFieldByte c := by
  have := charP_all c; simp [CharP] at this; exact this.2

/-! ## canonKey -/

theorem canonGo_all_valid (b : Bool) (s : Str) (h : s.all validHeaderFieldByte = true) :
    (canonGo b s).all validHeaderFieldByte = true := by
  induction s generalizing b with
  | nil => simp [canonGo]
  | cons c cs ih =>
    simp only [List.all_cons, Bool.and_eq_true] at h
    simp only [canonGo, List.all_cons, Bool.and_eq_true]
    refine ⟨?_, ih _ h.2⟩
    cases b
    · simpa using valid_lower c h.1
    · simpa using valid_upper c h.1

theorem canonGo_idem (b : Bool) (s : Str) : canonGo b (canonGo b s) = canonGo b s := by
  induction s generalizing b with
  | nil => simp [canonGo]
  | cons c cs ih =>
    cases b <;> simp [canonGo, upper_upper, lower_lower, ih]

theorem canonGo_lower (b : Bool) (s : Str) : canonGo b (lower s) = canonGo b s := by
  induction s generalizing b with
  | nil => simp [canonGo, lower]
  | cons c cs ih =>
    have ih' : ∀ b, canonGo b (List.map asciiLower cs) = canonGo b cs := ih
    cases b <;> simp [canonGo, lower, upper_lower, lower_lower, ih']

theorem lower_canonGo (b : Bool) (s : Str) : lower (canonGo b s) = lower s := by
  induction s generalizing b with
  | nil => simp [canonGo, lower]
  | cons c cs ih =>
    have ih' : ∀ b, List.map asciiLower (canonGo b cs) = List.map asciiLower cs := ih
    cases b <;> simp [canonGo, lower, lower_upper, lower_lower, ih']

theorem lower_all_valid (s : Str) :
    (lower s).all validHeaderFieldByte = s.all validHeaderFieldByte := by
  induction s with
  | nil => simp [lower]
  | cons c cs ih =>
    have ih' : (List.map asciiLower cs).all validHeaderFieldByte = cs.all validHeaderFieldByte := ih
    simp only [lower, List.map_cons, List.all_cons, valid_lower_eq, ih']

/-- keys of `Headers` values built by the model are fixed points of `canonKey` -/
theorem canonKey_canonKey (s : Str) : canonKey (canonKey s) = canonKey s := by
  unfold canonKey
  by_cases h : s.all validHeaderFieldByte = true
  · simp [h, canonGo_all_valid true s h, canonGo_idem]
  · simp [h]

theorem canonKey_lower_of_valid (s : Str) (h : s.all validHeaderFieldByte = true) :
    canonKey (lower s) = canonKey s := by
  unfold canonKey
  rw [lower_all_valid, h]
  simp [canonGo_lower]

theorem lower_canonKey (s : Str) (h : s.all validHeaderFieldByte = true) :
    lower (canonKey s) = lower s := by
  unfold canonKey; simp [h, lower_canonGo]

/-! ## raw map operations seen through `hVals` -/

theorem hVals_addRaw (h : Headers) (k v k' : Str) :
    hVals (addRaw h k v) k' = if k' = k then hVals h k ++ [v] else hVals h k' := by
  induction h with
  | nil =>
    by_cases hk : k' = k
    · subst hk; simp [addRaw, hVals]
    · have : ¬ k = k' := fun h => hk h.symm
      simp [addRaw, hVals, hk, this]
  | cons e r ih =>
    obtain ⟨k0, vs⟩ := e
    by_cases h0 : k0 = k
    · subst h0
      by_cases hk : k' = k0
      · subst hk; simp [addRaw, hVals]
      · have : ¬ k0 = k' := fun h => hk h.symm
        simp [addRaw, hVals, hk, this]
    · by_cases hk : k' = k
      · subst hk
        simp [addRaw, hVals, h0, ih]
      · by_cases h1 : k0 = k' <;> simp [addRaw, hVals, h0, hk, h1, ih]

theorem hVals_setRaw (h : Headers) (k v k' : Str) :
    hVals (setRaw h k v) k' = if k' = k then [v] else hVals h k' := by
  induction h with
  | nil =>
    by_cases hk : k' = k
    · subst hk; simp [setRaw, hVals]
    · have : ¬ k = k' := fun h => hk h.symm
      simp [setRaw, hVals, hk, this]
  | cons e r ih =>
    obtain ⟨k0, vs⟩ := e
    by_cases h0 : k0 = k
    · subst h0
      by_cases hk : k' = k0
      · subst hk; simp [setRaw, hVals]
      · have : ¬ k0 = k' := fun h => hk h.symm
        simp [setRaw, hVals, hk, this]
    · by_cases hk : k' = k
      · subst hk
        simp [setRaw, hVals, h0, ih]
      · by_cases h1 : k0 = k' <;> simp [setRaw, hVals, h0, hk, h1, ih]

theorem hVals_delRaw (h : Headers) (k k' : Str) :
    hVals (delRaw h k) k' = if k' = k then [] else hVals h k' := by
  induction h with
  | nil => simp [delRaw, hVals]
  | cons e r ih =>
    obtain ⟨k0, vs⟩ := e
    by_cases h0 : k0 = k <;> by_cases hk : k' = k <;> by_cases h1 : k0 = k' <;>
      simp_all [delRaw, hVals]

/-! ## well-formed header maps -/

def keys (h : Headers) : List Str := h.map (·.1)

/-- pairwise distinct keys, every key canonical (what net/http and `Header.Add/Set` produce) -/
structure WF (h : Headers) : Prop where
  nodup : (keys h).Nodup
  canon : ∀ k ∈ keys h, canonKey k = k

theorem keys_addRaw (h : Headers) (k v : Str) :
    ∀ x, x ∈ keys (addRaw h k v) ↔ x ∈ keys h ∨ x = k := by
  induction h with
  | nil => simp [addRaw, keys]
  | cons e r ih =>
    obtain ⟨k0, vs⟩ := e
    intro x
    by_cases h0 : k0 = k
    · subst h0; simp [addRaw, keys]; exact Or.inl
    · have := ih x
      simp only [keys] at this
      simp [addRaw, keys, h0, this, or_assoc]

theorem nodup_addRaw (h : Headers) (k v : Str) (hn : (keys h).Nodup) : (keys (addRaw h k v)).Nodup := by
  induction h with
  | nil => simp [addRaw, keys]
  | cons e r ih =>
    obtain ⟨k0, vs⟩ := e
    by_cases h0 : k0 = k
    · subst h0; simpa [addRaw, keys] using hn
    · simp only [keys, List.map_cons, List.nodup_cons] at hn
      have hr := ih hn.2
      have hk := keys_addRaw r k v k0
      simp only [keys] at hr hk
      simp only [addRaw, h0, if_false, keys, List.map_cons, List.nodup_cons]
      refine ⟨?_, hr⟩
      rw [hk]; rintro (h1 | h1)
      · exact hn.1 h1
      · exact h0 h1

theorem WF_nil : WF ([] : Headers) := ⟨by simp [keys], by simp [keys]⟩

theorem WF_hAdd (h : Headers) (n v : Str) (w : WF h) : WF (hAdd h n v) := by
  refine ⟨nodup_addRaw h _ v w.nodup, ?_⟩
  intro k hk
  rcases (keys_addRaw h (canonKey n) v k).1 hk with h1 | h1
  · exact w.canon k h1
  · subst h1; exact canonKey_canonKey n

theorem WF_hDel (h : Headers) (n : Str) (w : WF h) : WF (hDel h n) := by
  have hsub : (keys (hDel h n)).Sublist (keys h) := by
    unfold keys hDel delRaw
    exact List.Sublist.map _ List.filter_sublist
  exact ⟨hsub.nodup w.nodup, fun k hk => w.canon k (hsub.subset hk)⟩

theorem keys_setRaw (h : Headers) (k v : Str) :
    ∀ x, x ∈ keys (setRaw h k v) ↔ x ∈ keys h ∨ x = k := by
  induction h with
  | nil => simp [setRaw, keys]
  | cons e r ih =>
    obtain ⟨k0, vs⟩ := e
    intro x
    by_cases h0 : k0 = k
    · subst h0; simp [setRaw, keys]; exact Or.inl
    · have := ih x
      simp only [keys] at this
      simp [setRaw, keys, h0, this, or_assoc]

theorem WF_fromClient (raw : List (Str × Str)) : WF (fromClient raw) := by
  unfold fromClient
  suffices ∀ h, WF h → WF (raw.foldl (fun h nv => hAdd h nv.1 nv.2) h) from this [] WF_nil
  induction raw with
  | nil => intro h w; simpa using w
  | cons e r ih => intro h w; simp only [List.foldl_cons]; exact ih _ (WF_hAdd h e.1 e.2 w)

/-! ## specification vocabulary (pure functions used in the statements of the C07 theorems) -/

/-- the claim values of a session, panic-free (what the repaired `GetClaim` returns) -/
def claimVals (s : Option Session) (claim : Str) : List Str :=
  match s with
  | none => []
  | some s =>
    if claim = "access_token".toList then [s.accessToken]
    else if claim = "id_token".toList then [s.idToken]
    else if claim = "created_at".toList then s.createdAt.toList
    else if claim = "expires_on".toList then s.expiresOn.toList
    else if claim = "refresh_token".toList then [s.refreshToken]
    else if claim = "email".toList then [s.email]
    else if claim = "user".toList then [s.user]
    else if claim = "groups".toList then s.groups
    else if claim = "preferred_username".toList then [s.preferredUsername]
    else []

/-- the header values derived from the session by one configured value source -/
def srcVals (b64 : Str → Str) (s : Option Session) : ValueSource → List Str
  | .secret v => [v]
  | .claim c pfx bap => ((claimVals s c).filter (fun v => v ≠ [])).map (renderClaim b64 pfx bap)

/-- all values the configuration derives for canonical key `k`, in configuration order -/
def injectedFor (b64 : Str → Str) (cfg : List HeaderCfg) (s : Option Session) (k : Str) : List Str :=
  (cfg.filter (fun c => canonKey c.name = k)).flatMap (fun c => c.values.flatMap (srcVals b64 s))

/-- some configured, non-preserved header has canonical key `k` -/
def stripped (cfg : List HeaderCfg) (k : Str) : Bool :=
  cfg.any (fun c => !c.preserve && canonKey c.name = k)

/-- effect of `flattenHeaders` on the value list stored under key `k` -/
def flat (k : Str) (vs : List Str) : List Str :=
  if vs.length > 1 && k ≠ setCookieKey then [joinWith ',' vs] else vs

theorem timeClaim_true (o : Option Str) : timeClaim true o = .ok o.toList := by
  cases o <;> rfl

theorem timeClaim_ok (fixed : Bool) (o : Option Str) (vs : List Str)
    (h : timeClaim fixed o = .ok vs) : vs = o.toList := by
  cases o with
  | some t => simp [timeClaim] at h; simp [h]
  | none => cases fixed <;> simp [timeClaim] at h; simp [h]

theorem getClaim_fixed (s : Option Session) (c : Str) : getClaim true s c = .ok (claimVals s c) := by
  cases s with
  | none => rfl
  | some s =>
    simp only [getClaim, claimVals, timeClaim_true]
    repeat' split
    all_goals rfl

theorem getClaim_ok (fixed : Bool) (s : Option Session) (c : Str) (vs : List Str)
    (h : getClaim fixed s c = .ok vs) : vs = claimVals s c := by
  cases s with
  | none => simp [getClaim] at h; simp [claimVals, h]
  | some s =>
    simp only [getClaim] at h
    simp only [claimVals]
    repeat' split at h
    all_goals first
      | (have := timeClaim_ok _ _ _ h; simp_all; done)
      | (simp only [Outcome.ok.injEq] at h; subst h; simp_all; done)

theorem sourceValues_fixed (b64 : Str → Str) (s : Option Session) (src : ValueSource) :
    sourceValues true b64 s src = .ok (srcVals b64 s src) := by
  cases src with
  | secret v => rfl
  | claim c pfx bap => simp [sourceValues, srcVals, getClaim_fixed]

theorem sourceValues_ok (fixed : Bool) (b64 : Str → Str) (s : Option Session) (src : ValueSource)
    (vs : List Str) (h : sourceValues fixed b64 s src = .ok vs) : vs = srcVals b64 s src := by
  cases src with
  | secret v => simp [sourceValues] at h; simp [srcVals, h]
  | claim c pfx bap =>
    simp only [sourceValues] at h
    split at h
    · rename_i cv hc
      have := getClaim_ok fixed s c cv hc
      simp only [Outcome.ok.injEq] at h
      simp [srcVals, ← h, this]
    · cases h
    · cases h

/-! ## strip / inject / flatten seen through `hVals` -/

theorem hVals_hAdd (h : Headers) (n v k : Str) :
    hVals (hAdd h n v) k = if k = canonKey n then hVals h k ++ [v] else hVals h k := by
  unfold hAdd; rw [hVals_addRaw]; by_cases hk : k = canonKey n <;> simp [hk]

theorem hVals_hDel (h : Headers) (n k : Str) :
    hVals (hDel h n) k = if k = canonKey n then [] else hVals h k := hVals_delRaw h _ k

theorem hVals_hSet (h : Headers) (n v k : Str) :
    hVals (hSet h n v) k = if k = canonKey n then [v] else hVals h k := hVals_setRaw h _ v k

theorem hVals_strip (names : List Str) (h : Headers) (k : Str) :
    hVals (strip names h) k = if names.any (fun n => canonKey n = k) then [] else hVals h k := by
  unfold strip
  induction names generalizing h with
  | nil => simp
  | cons n ns ih =>
    simp only [List.foldl_cons, ih, hVals_hDel, List.any_cons]
    by_cases h1 : canonKey n = k
    · simp [h1]
    · have : ¬ k = canonKey n := fun e => h1 e.symm
      simp [h1, this]

theorem WF_strip (names : List Str) (h : Headers) (w : WF h) : WF (strip names h) := by
  unfold strip
  induction names generalizing h with
  | nil => simpa using w
  | cons n ns ih => simp only [List.foldl_cons]; exact ih _ (WF_hDel h n w)

theorem hVals_addMany (h : Headers) (n : Str) (vs : List Str) (k : Str) :
    hVals (addMany h n vs) k = if k = canonKey n then hVals h k ++ vs else hVals h k := by
  unfold addMany
  induction vs generalizing h with
  | nil => simp
  | cons v vs ih =>
    simp only [List.foldl_cons, ih, hVals_hAdd]
    by_cases hk : k = canonKey n <;> simp [hk]

theorem WF_addMany (h : Headers) (n : Str) (vs : List Str) (w : WF h) : WF (addMany h n vs) := by
  unfold addMany
  induction vs generalizing h with
  | nil => simpa using w
  | cons v vs ih => simp only [List.foldl_cons]; exact ih _ (WF_hAdd h n v w)

theorem injectAll_ok (fixed : Bool) (b64 : Str → Str) (s : Option Session)
    (L : List (Str × ValueSource)) (h h' : Headers)
    (hok : injectAll fixed b64 s L h = .ok h') :
    (WF h → WF h') ∧
    ∀ k, hVals h' k = hVals h k ++
      (L.filter (fun p => canonKey p.1 = k)).flatMap (fun p => srcVals b64 s p.2) := by
  induction L generalizing h with
  | nil =>
    simp only [injectAll, Outcome.ok.injEq] at hok
    subst hok; simp
  | cons e r ih =>
    obtain ⟨n, src⟩ := e
    simp only [injectAll] at hok
    split at hok
    · rename_i vs hv
      have hvs := sourceValues_ok fixed b64 s src vs hv
      obtain ⟨ihw, ihv⟩ := ih _ hok
      refine ⟨fun w => ihw (WF_addMany h n vs w), fun k => ?_⟩
      rw [ihv k, hVals_addMany, List.filter_cons]
      by_cases hk : canonKey n = k
      · subst hk; simp [hvs]
      · have : ¬ k = canonKey n := fun e => hk e.symm
        simp [hk, this]
    · cases hok
    · cases hok

theorem injectAll_fixed (b64 : Str → Str) (s : Option Session)
    (L : List (Str × ValueSource)) (h : Headers) :
    ∃ h', injectAll true b64 s L h = .ok h' := by
  induction L generalizing h with
  | nil => exact ⟨h, rfl⟩
  | cons e r ih =>
    obtain ⟨n, src⟩ := e
    simp only [injectAll, sourceValues_fixed]
    exact ih _

/-- the per-key view of `injectors`: same values as the configuration-level `injectedFor` -/
theorem injectors_filter (b64 : Str → Str) (s : Option Session) (cfg : List HeaderCfg) (k : Str) :
    ((injectors cfg).filter (fun p => canonKey p.1 = k)).flatMap (fun p => srcVals b64 s p.2)
      = injectedFor b64 cfg s k := by
  unfold injectors injectedFor
  induction cfg with
  | nil => simp
  | cons c cs ih =>
    simp only [List.flatMap_cons, List.filter_append, List.flatMap_append, ih, List.filter_cons]
    by_cases hk : canonKey c.name = k
    · have : c.values.filter (fun _ => true) = c.values := List.filter_eq_self.2 (by simp)
      simp [hk, List.filter_map, List.flatMap_map, Function.comp_def, this]
    · simp [hk, List.filter_map, Function.comp_def]

theorem hVals_not_mem (h : Headers) (k : Str) (hk : k ∉ keys h) : hVals h k = [] := by
  induction h with
  | nil => rfl
  | cons e r ih =>
    obtain ⟨k0, vs⟩ := e
    simp only [keys, List.map_cons, List.mem_cons, not_or] at hk
    have : ¬ k0 = k := fun e => hk.1 e.symm
    simp only [hVals, this, if_false]
    exact ih hk.2

theorem hVals_flattenStep (acc : Headers) (e : Str × List Str) (he : canonKey e.1 = e.1) (k : Str) :
    hVals (flattenStep acc e) k =
      if k = e.1 ∧ e.2.length > 1 ∧ e.1 ≠ setCookieKey then [joinWith ',' e.2] else hVals acc k := by
  unfold flattenStep
  by_cases hc : e.2.length > 1 ∧ e.1 ≠ setCookieKey
  · have : (decide (e.2.length > 1) && decide (e.1 ≠ setCookieKey)) = true := by simpa using hc
    rw [if_pos this, hVals_hSet, he]
    by_cases hk : k = e.1 <;> simp [hk, hc]
  · have : ¬ (decide (e.2.length > 1) && decide (e.1 ≠ setCookieKey)) = true := by simpa using hc
    rw [if_neg this]
    have : ¬ (k = e.1 ∧ e.2.length > 1 ∧ e.1 ≠ setCookieKey) := fun h => hc h.2
    rw [if_neg this]

theorem hVals_foldl_flattenStep (L acc : Headers) (hn : (keys L).Nodup)
    (hc : ∀ k ∈ keys L, canonKey k = k) (k : Str) :
    hVals (L.foldl flattenStep acc) k =
      if (hVals L k).length > 1 ∧ k ≠ setCookieKey then [joinWith ',' (hVals L k)] else hVals acc k := by
  induction L generalizing acc with
  | nil => simp [hVals]
  | cons e r ih =>
    obtain ⟨k0, vs⟩ := e
    simp only [keys, List.map_cons, List.nodup_cons] at hn
    have hc0 : canonKey k0 = k0 := hc k0 (by simp [keys])
    have hcr : ∀ k ∈ keys r, canonKey k = k := fun k hk => hc k (by simp [keys] at hk ⊢; exact Or.inr hk)
    simp only [List.foldl_cons]
    rw [ih _ hn.2 hcr, hVals_flattenStep _ _ hc0]
    by_cases hk : k0 = k
    · subst hk
      have : hVals r k0 = [] := hVals_not_mem r k0 hn.1
      simp [hVals, this]
    · have : ¬ k = k0 := fun e => hk e.symm
      simp [hVals, hk, this]

theorem hVals_flatten (h : Headers) (w : WF h) (k : Str) :
    hVals (flatten h) k = flat k (hVals h k) := by
  unfold flatten flat
  rw [hVals_foldl_flattenStep h h w.nodup w.canon k]
  by_cases hc : (hVals h k).length > 1 ∧ k ≠ setCookieKey
  · have : (decide ((hVals h k).length > 1) && decide (k ≠ setCookieKey)) = true := by simpa using hc
    rw [if_pos hc, if_pos this]
  · have : ¬ (decide ((hVals h k).length > 1) && decide (k ≠ setCookieKey)) = true := by simpa using hc
    rw [if_neg hc, if_neg this]

/-- what the net/http server hands to the handler: per canonical key, the client's values in
    arrival order -/
theorem hVals_fromClient (raw : List (Str × Str)) (k : Str) :
    hVals (fromClient raw) k = (raw.filter (fun nv => canonKey nv.1 = k)).map (·.2) := by
  unfold fromClient
  suffices ∀ h, hVals (raw.foldl (fun h nv => hAdd h nv.1 nv.2) h) k
      = hVals h k ++ (raw.filter (fun nv => canonKey nv.1 = k)).map (·.2) by
    simpa [hVals] using this []
  induction raw with
  | nil => intro h; simp
  | cons e r ih =>
    intro h
    simp only [List.foldl_cons, ih, hVals_hAdd, List.filter_cons]
    by_cases hk : canonKey e.1 = k
    · subst hk; simp
    · have : ¬ k = canonKey e.1 := fun e => hk e.symm
      simp [hk, this]

end O2P.Hdr
