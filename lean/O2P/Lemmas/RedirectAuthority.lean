/-
  O2P.Lemmas.RedirectAuthority — helper lemmas for `O2P.Props.C06Authority`.
-/
import O2P.Model.RedirectAuthority
import O2P.Lemmas.Redirect

namespace O2P
namespace Redirect

/-! ## Characters -/

theorem char_le_iff (a b : Char) : a ≤ b ↔ a.toNat ≤ b.toNat := by
  rw [Char.le_def, UInt32.le_iff_toNat_le]; rfl

theorem isAlnum_range {c : Char} (h : isAlnum c = true) :
    (48 ≤ c.toNat ∧ c.toNat ≤ 57) ∨ (65 ≤ c.toNat ∧ c.toNat ≤ 90) ∨
    (97 ≤ c.toNat ∧ c.toNat ≤ 122) := by
  simp only [isAlnum, isAlpha, isDigit, Bool.or_eq_true, Bool.and_eq_true, decide_eq_true_eq,
    char_le_iff] at h
  have e1 : 'a'.toNat = 97 := rfl
  have e2 : 'z'.toNat = 122 := rfl
  have e3 : 'A'.toNat = 65 := rfl
  have e4 : 'Z'.toNat = 90 := rfl
  have e5 : '0'.toNat = 48 := rfl
  have e6 : '9'.toNat = 57 := rfl
  omega

/-- numeric description of a byte that is harmless inside an authority: not a C0/space byte
    and none of `#` `/` `?` `\` -/
def CodeOK (n : Nat) : Prop := 32 < n ∧ n ≠ 35 ∧ n ≠ 47 ∧ n ≠ 63 ∧ n ≠ 92

instance (n : Nat) : Decidable (CodeOK n) := by unfold CodeOK; infer_instance

theorem goHostByteOK_code {c : Char} (h : goHostByteOK c = true) : CodeOK c.toNat := by
  by_cases hal : isAlnum c = true
  · have := isAlnum_range hal
    unfold CodeOK; omega
  · have hal' : isAlnum c = false := by simpa using hal
    simp only [goHostByteOK, hal', Bool.false_or, Bool.or_eq_true, beq_iff_eq] at h
    have hl : ∀ x ∈ ['!', '$', '&', '\'', '(', ')', '*', '+', ',', ';', '=', ':', '[', ']', '<', '>',
        '"', '-', '_', '.', '~'], CodeOK x.toNat := by decide
    apply hl
    simp only [List.mem_cons, List.not_mem_nil, or_false, or_assoc] at h ⊢
    exact h

theorem goUserinfoByteOK_code {c : Char} (h : goUserinfoByteOK c = true) : CodeOK c.toNat := by
  by_cases hal : isAlnum c = true
  · have := isAlnum_range hal
    unfold CodeOK; omega
  · have hal' : isAlnum c = false := by simpa using hal
    simp only [goUserinfoByteOK, hal', Bool.false_or, Bool.or_eq_true, beq_iff_eq] at h
    have hl : ∀ x ∈ ['-', '.', '_', ':', '~', '!', '$', '&', '\'', '(', ')', '*', '+', ',', ';', '=',
        '%', '@'], CodeOK x.toNat := by decide
    apply hl
    simp only [List.mem_cons, List.not_mem_nil, or_false, or_assoc] at h ⊢
    exact h

theorem CodeOK_not_authEnd {c : Char} (h : CodeOK c.toNat) : isBrowserAuthEnd c = false := by
  unfold CodeOK at h
  simp only [isBrowserAuthEnd, Bool.or_eq_false_iff, beq_eq_false_iff_ne, ne_eq]
  refine ⟨⟨⟨?_, ?_⟩, ?_⟩, ?_⟩ <;> (rintro rfl; simp at h)

theorem CodeOK_not_goAuthEnd {c : Char} (h : CodeOK c.toNat) : isGoAuthEnd c = false := by
  unfold CodeOK at h
  simp only [isGoAuthEnd, Bool.or_eq_false_iff, beq_eq_false_iff_ne, ne_eq]
  refine ⟨⟨?_, ?_⟩, ?_⟩ <;> (rintro rfl; simp at h)

theorem CodeOK_not_sep {c : Char} (h : CodeOK c.toNat) : isSep c = false := by
  unfold CodeOK at h
  simp only [isSep, Bool.or_eq_false_iff, beq_eq_false_iff_ne, ne_eq]
  refine ⟨?_, ?_⟩ <;> (rintro rfl; simp at h)

theorem CodeOK_not_c0 {c : Char} (h : CodeOK c.toNat) : isC0Space c = false := by
  unfold CodeOK at h
  simp only [isC0Space, decide_eq_false_iff_not]
  omega

theorem not_c0_not_tabNl {c : Char} (h : isC0Space c = false) : isTabNl c = false := by
  cases ht : isTabNl c with
  | false => rfl
  | true =>
    have := isWs_le (isTabNl_isWs ht)
    simp only [isC0Space, decide_eq_false_iff_not] at h
    omega

/-! ## Lists -/

theorem takeWhile_takeWhile' (p q : Char → Bool) (l : Str) :
    (l.takeWhile p).takeWhile q = l.takeWhile (fun c => p c && q c) := by
  induction l with
  | nil => rfl
  | cons c cs ih =>
    by_cases hp : p c = true
    · by_cases hq : q c = true
      · simp [hp, hq, ih]
      · simp [hp, hq]
    · simp [hp]

theorem dropWhile_head (p : Char → Bool) (l : Str) :
    l.dropWhile p = [] ∨ ∃ e more, l.dropWhile p = e :: more ∧ p e = false := by
  induction l with
  | nil => exact Or.inl rfl
  | cons c cs ih =>
    by_cases hp : p c = true
    · simpa [hp] using ih
    · right
      exact ⟨c, cs, by simp [hp], by simpa using hp⟩

theorem takeWhile_append_stop {p : Char → Bool} {A rest : Str} (hA : ∀ c ∈ A, p c = true)
    (hr : rest = [] ∨ ∃ e more, rest = e :: more ∧ p e = false) :
    (A ++ rest).takeWhile p = A ∧ (A ++ rest).dropWhile p = rest := by
  induction A with
  | nil =>
    rcases hr with rfl | ⟨e, more, rfl, he⟩
    · simp
    · simp [he]
  | cons a A ih =>
    have ha := hA a (by simp)
    have := ih (fun c hc => hA c (by simp [hc]))
    simp [ha, this.1, this.2]

theorem exists_last_split {c : Char} {l : Str} (h : c ∈ l) : ∃ a b, l = a ++ c :: b ∧ c ∉ b := by
  induction l with
  | nil => simp at h
  | cons x l ih =>
    by_cases hl : c ∈ l
    · obtain ⟨a, b, rfl, hb⟩ := ih hl
      exact ⟨x :: a, b, rfl, hb⟩
    · have : c = x := by simpa [hl] using h
      subst this
      exact ⟨[], l, rfl, hl⟩

theorem exists_first_split {c : Char} {l : Str} (h : c ∈ l) : ∃ a b, l = a ++ c :: b ∧ c ∉ a := by
  induction l with
  | nil => simp at h
  | cons x l ih =>
    by_cases hx : c = x
    · subst hx; exact ⟨[], l, rfl, by simp⟩
    · have hl : c ∈ l := by simpa [hx] using h
      obtain ⟨a, b, rfl, ha⟩ := ih hl
      exact ⟨x :: a, b, rfl, by simp [hx, ha]⟩

theorem afterLast_split (c : Char) (a b : Str) (h : c ∉ b) : afterLast c (a ++ c :: b) = b := by
  unfold afterLast
  rw [lastIndexOf_append c a b h]
  simp

theorem beforeLast_split (c : Char) (a b : Str) (h : c ∉ b) :
    beforeLast c (a ++ c :: b) = some a := by
  unfold beforeLast
  rw [lastIndexOf_append c a b h]
  simp

theorem afterLast_not_mem (c : Char) (l : Str) (h : c ∉ l) : afterLast c l = l := by
  unfold afterLast
  rw [lastIndexOf_not_mem c l h]

theorem beforeLast_not_mem (c : Char) (l : Str) (h : c ∉ l) : beforeLast c l = none := by
  unfold beforeLast
  rw [lastIndexOf_not_mem c l h]

/-! ## Browser preprocessing of a string with a clean prefix -/

theorem stripTrailing_append {X : Str} (hX : ∀ c ∈ X, isC0Space c = false) (Y : Str) :
    stripTrailing (X ++ Y) = X ++ stripTrailing Y := by
  unfold stripTrailing
  rw [List.reverse_append, List.dropWhile_append]
  split
  · rename_i he
    have he' : List.dropWhile isC0Space Y.reverse = [] := by simpa using he
    rw [he', dropWhile_none (fun c hc => hX c (by simpa using hc))]
    simp
  · simp

theorem browserPre_append {X : Str} (hne : X ≠ []) (hX : ∀ c ∈ X, isC0Space c = false) (Y : Str) :
    browserPre (X ++ Y) = X ++ (stripTrailing Y).filter (fun c => !isTabNl c) := by
  unfold browserPre
  have h1 : (X ++ Y).dropWhile isC0Space = X ++ Y := by
    cases X with
    | nil => exact absurd rfl hne
    | cons x X' =>
      rw [List.cons_append, List.dropWhile_cons_of_neg (by simp [hX x (by simp)])]
  rw [h1, stripTrailing_append hX, List.filter_append]
  congr 1
  rw [List.filter_eq_self]
  intro c hc
  simp [not_c0_not_tabNl (hX c hc)]

/-- after preprocessing, what follows a clean prefix is still empty or starts with the same
    terminator -/
theorem browserPre_tail {rest : Str}
    (hr : rest = [] ∨ ∃ e more, rest = e :: more ∧ isGoAuthEnd e = true) :
    let rest' := (stripTrailing rest).filter (fun c => !isTabNl c)
    rest' = [] ∨ ∃ e more, rest' = e :: more ∧ isBrowserAuthEnd e = true := by
  intro rest'
  rcases hr with rfl | ⟨e, more, rfl, he⟩
  · left; simp [rest', stripTrailing]
  · right
    have hc0 : isC0Space e = false := by
      simp only [isGoAuthEnd, Bool.or_eq_true, beq_iff_eq] at he
      rcases he with (rfl | rfl) | rfl <;> decide
    have hb : isBrowserAuthEnd e = true := by
      simp only [isGoAuthEnd, Bool.or_eq_true, beq_iff_eq] at he
      rcases he with (rfl | rfl) | rfl <;> decide
    have h1 : stripTrailing (e :: more) = [e] ++ stripTrailing more :=
      stripTrailing_append (X := [e]) (by simpa using hc0) more
    refine ⟨e, (stripTrailing more).filter (fun c => !isTabNl c), ?_, hb⟩
    simp [rest', h1, not_c0_not_tabNl hc0]

end Redirect
end O2P
