/-
  O2P.Lemmas.Base64 — lemmas about the base64 model (`O2P/Model/Base64.lean`).
-/
import O2P.Model.Base64
import O2P.Lemmas.Decimal

namespace O2P

/-- membership in the 64-character alphabet -/
def isB64 (url : Bool) (c : Char) : Prop := (b64Val url c).isSome = true

instance (url : Bool) (c : Char) : Decidable (isB64 url c) := by unfold isB64; infer_instance

/-- the byte-truncation of a char (identity on 0..255) -/
def truncByte (c : Char) : Char := Char.ofNat (byteOf c)

/-- "is a byte string" -/
def IsBytes (s : Str) : Prop := ∀ c ∈ s, c.toNat < 256

instance (s : Str) : Decidable (IsBytes s) :=
  inferInstanceAs (Decidable (∀ c ∈ s, c.toNat < 256))

theorem truncByte_of_lt {c : Char} (h : c.toNat < 256) : truncByte c = c := by
  simp [truncByte, byteOf, Nat.mod_eq_of_lt h]

theorem map_truncByte_of_isBytes {s : Str} (h : IsBytes s) : s.map truncByte = s := by
  induction s with
  | nil => rfl
  | cons c cs ih =>
    have hc : c.toNat < 256 := h c (by simp)
    have hcs : IsBytes cs := fun d hd => h d (by simp [hd])
    simp [truncByte_of_lt hc, ih hcs]

theorem byteOf_lt (c : Char) : byteOf c < 256 := by
  unfold byteOf; omega

/-! ### the alphabet -/

theorem b64Val_b64Char_fin :
    ∀ (url : Bool) (n : Fin 64), b64Val url (b64Char url n.val) = some n.val := by
  decide

theorem b64Val_b64Char (url : Bool) (n : Nat) (h : n < 64) :
    b64Val url (b64Char url n) = some n :=
  b64Val_b64Char_fin url ⟨n, h⟩

theorem b64Char_isB64 (url : Bool) (n : Nat) : isB64 url (b64Char url n) := by
  by_cases h : n < 64
  · simp [isB64, b64Val_b64Char url n h]
  · have h1 : ¬ n < 26 := by omega
    have h2 : ¬ n < 52 := by omega
    have h3 : ¬ n < 62 := by omega
    have h4 : ¬ n = 62 := by omega
    simp only [b64Char, h1, h2, h3, h4, if_false]
    cases url <;> decide

theorem b64Val_lt {url : Bool} {c : Char} {v : Nat} (h : b64Val url c = some v) : v < 64 := by
  unfold b64Val at h
  simp only at h
  repeat' split at h
  all_goals (simp at h; try omega)

theorem isB64_ne_pipe {url : Bool} {c : Char} (h : isB64 url c) : c ≠ '|' := by
  intro hc; subst hc; revert h; cases url <;> decide
theorem isB64_ne_colon {url : Bool} {c : Char} (h : isB64 url c) : c ≠ ':' := by
  intro hc; subst hc; revert h; cases url <;> decide
theorem isB64_ne_eq {url : Bool} {c : Char} (h : isB64 url c) : c ≠ '=' := by
  intro hc; subst hc; revert h; cases url <;> decide
theorem isB64_ne_cr {url : Bool} {c : Char} (h : isB64 url c) : c ≠ '\r' := by
  intro hc; subst hc; revert h; cases url <;> decide
theorem isB64_ne_lf {url : Bool} {c : Char} (h : isB64 url c) : c ≠ '\n' := by
  intro hc; subst hc; revert h; cases url <;> decide
theorem isB64_url_ne_plus {c : Char} (h : isB64 true c) : c ≠ '+' := by
  intro hc; subst hc; revert h; decide

theorem isB64_not_isCRLF {url : Bool} {c : Char} (h : isB64 url c) : isCRLF c = false := by
  simp [isCRLF, isB64_ne_cr h, isB64_ne_lf h]

/-- every decimal digit belongs to both alphabets (this is what makes the undelimited MAC
    input ambiguous) -/
theorem isDigit_isB64 {url : Bool} {c : Char} (h : isDigit c = true) : isB64 url c := by
  rw [isDigit_iff] at h
  have h1 : ¬ (65 ≤ c.toNat ∧ c.toNat ≤ 90) := by omega
  have h2 : ¬ (97 ≤ c.toNat ∧ c.toNat ≤ 122) := by omega
  simp [isB64, b64Val, h1, h2, h]

theorem b64Val_pad (url : Bool) : b64Val url '=' = none := by cases url <;> decide

/-! ### encoder -/

theorem b64Encode_alphabet (url pad : Bool) (s : Str) :
    ∀ c ∈ b64Encode url pad s, isB64 url c ∨ (pad = true ∧ c = '=') := by
  fun_induction b64Encode url pad s with
  | case1 a b c rest n ih =>
    intro x hx
    simp only [List.mem_cons] at hx
    rcases hx with rfl | rfl | rfl | rfl | hx
    · exact .inl (b64Char_isB64 _ _)
    · exact .inl (b64Char_isB64 _ _)
    · exact .inl (b64Char_isB64 _ _)
    · exact .inl (b64Char_isB64 _ _)
    · exact ih x hx
  | case2 a b n =>
    intro x hx
    simp only [List.mem_cons] at hx
    rcases hx with rfl | rfl | rfl | hx
    · exact .inl (b64Char_isB64 _ _)
    · exact .inl (b64Char_isB64 _ _)
    · exact .inl (b64Char_isB64 _ _)
    · cases pad <;> simp_all
  | case3 a n =>
    intro x hx
    simp only [List.mem_cons] at hx
    rcases hx with rfl | rfl | hx
    · exact .inl (b64Char_isB64 _ _)
    · exact .inl (b64Char_isB64 _ _)
    · cases pad <;> simp_all
  | case4 => simp

theorem b64Encode_length (url pad : Bool) (s : Str) :
    (b64Encode url pad s).length =
      if pad then (s.length + 2) / 3 * 4 else s.length / 3 * 4 + (s.length % 3 * 8 + 5) / 6 := by
  fun_induction b64Encode url pad s with
  | case1 a b c rest n ih =>
    simp only [List.length_cons, ih]
    split <;> omega
  | case2 a b n => cases pad <;> simp
  | case3 a n => cases pad <;> simp
  | case4 => simp

/-! ### decoder ∘ encoder -/

theorem b64DecodeCore_encode (url pad : Bool) (s : Str) :
    b64DecodeCore url pad (b64Encode url pad s) = some (s.map truncByte) := by
  fun_induction b64Encode url pad s with
  | case1 a b c rest n ih =>
    have ha := byteOf_lt a; have hb := byteOf_lt b; have hc := byteOf_lt c
    have h1 : n / 262144 < 64 := by omega
    have h2 : n / 4096 % 64 < 64 := by omega
    have h3 : n / 64 % 64 < 64 := by omega
    have h4 : n % 64 < 64 := by omega
    simp only [b64DecodeCore, b64Val_b64Char _ _ h1, b64Val_b64Char _ _ h2, b64Val_b64Char _ _ h3,
      b64Val_b64Char _ _ h4, ih, List.map_cons, truncByte]
    have e1 : (n / 262144 * 262144 + n / 4096 % 64 * 4096 + n / 64 % 64 * 64 + n % 64) = n := by omega
    rw [e1]
    have e2 : n / 65536 % 256 = byteOf a := by omega
    have e3 : n / 256 % 256 = byteOf b := by omega
    have e4 : n % 256 = byteOf c := by omega
    rw [e2, e3, e4]
  | case2 a b n =>
    have ha := byteOf_lt a; have hb := byteOf_lt b
    have h1 : n / 262144 < 64 := by omega
    have h2 : n / 4096 % 64 < 64 := by omega
    have h3 : n / 64 % 64 < 64 := by omega
    have e1 : (n / 262144 * 4096 + n / 4096 % 64 * 64 + n / 64 % 64) / 1024 % 256 = byteOf a := by omega
    have e2 : (n / 262144 * 4096 + n / 4096 % 64 * 64 + n / 64 % 64) / 4 % 256 = byteOf b := by omega
    cases pad
    · simp [b64DecodeCore, b64Val_b64Char _ _ h1, b64Val_b64Char _ _ h2, b64Val_b64Char _ _ h3,
        truncByte, e1, e2]
    · simp [b64DecodeCore, b64Val_b64Char _ _ h1, b64Val_b64Char _ _ h2, b64Val_b64Char _ _ h3,
        truncByte, e1, e2, b64Val_pad]
  | case3 a n =>
    have ha := byteOf_lt a
    have h1 : n / 262144 < 64 := by omega
    have h2 : n / 4096 % 64 < 64 := by omega
    have e1 : (n / 262144 * 64 + n / 4096 % 64) / 16 % 256 = byteOf a := by omega
    cases pad
    · simp [b64DecodeCore, b64Val_b64Char _ _ h1, b64Val_b64Char _ _ h2, truncByte, e1]
    · simp [b64DecodeCore, b64Val_b64Char _ _ h1, b64Val_b64Char _ _ h2, truncByte, e1, b64Val_pad]
  | case4 => simp [b64DecodeCore]

/-! ### decoder structure -/

theorem toNat_ofNat_lt (n : Nat) (h : n < 55296) : (Char.ofNat n).toNat = n := by
  have hv : n.isValidChar := Or.inl h
  simp [Char.ofNat, hv, Char.ofNatAux, Char.toNat]
theorem toNat_ofNat_byte (n : Nat) : (Char.ofNat (n % 256)).toNat = n % 256 :=
  toNat_ofNat_lt _ (by omega)

theorem b64DecodeCore_pad_length (url : Bool) (s v : Str)
    (h : b64DecodeCore url true s = some v) : s.length % 4 = 0 := by
  fun_induction b64DecodeCore url true s generalizing v
  case case9 ih => have := ih _ ‹_›; simp only [List.length_cons]; omega
  all_goals simp_all

/-- bytes produced by the decoder are bytes -/
theorem b64DecodeCore_isBytes (url pad : Bool) (s v : Str)
    (h : b64DecodeCore url pad s = some v) : IsBytes v := by
  have hb : ∀ n : Nat, (Char.ofNat (n % 256)).toNat < 256 := by
    intro n
    rw [toNat_ofNat_byte]
    exact Nat.mod_lt _ (by decide)
  fun_induction b64DecodeCore url pad s generalizing v
  case case9 ih =>
    simp only [Option.some.injEq] at h
    subst h
    intro c hc
    simp only [List.mem_cons] at hc
    rcases hc with rfl | rfl | rfl | hc
    · exact hb _
    · exact hb _
    · exact hb _
    · exact ih _ ‹_› c hc
  all_goals (try (simp at h))
  all_goals (try subst h)
  all_goals (intro c hc; simp at hc)
  all_goals (try (rcases hc with rfl | rfl))
  all_goals (try subst hc)
  all_goals (exact hb _)

theorem b64DecodeCore_pad_append (url : Bool) (p q x y : Str)
    (hp : b64DecodeCore url true p = some x) (hq : q ≠ [])
    (hpq : b64DecodeCore url true (p ++ q) = some y) :
    ∃ z, b64DecodeCore url true q = some z ∧ y = x ++ z := by
  fun_induction b64DecodeCore url true p generalizing x y
  case case1 => simp at hp; subst hp; exact ⟨y, by simpa using hpq, rfl⟩
  case case9 a b c d rest va vb hb ha vc hc vd hd n t ht ih =>
    simp only [Option.some.injEq] at hp
    subst hp
    simp only [List.cons_append, b64DecodeCore, ha, hb, hc, hd] at hpq
    cases hrq : b64DecodeCore url true (rest ++ q) with
    | none => simp [hrq] at hpq
    | some t' =>
      simp only [hrq, Option.some.injEq] at hpq
      obtain ⟨z, hz, rfl⟩ := ih t t' ht hrq
      exact ⟨z, hz, by rw [← hpq]; rfl⟩
  case case11 a b c d rest va vb hb ha vc hc hd hcond n =>
    obtain ⟨_, rfl, rfl⟩ := hcond
    simp [b64DecodeCore, ha, hb, hc, b64Val_pad, hq] at hpq
  case case13 a b c d rest va vb hb ha hc hcond =>
    obtain ⟨_, rfl, rfl, rfl⟩ := hcond
    simp [b64DecodeCore, ha, hb, b64Val_pad, hq] at hpq
  all_goals simp_all

/-! ### CR/LF filtering and the top-level decoder -/

def NoCRLF (s : Str) : Prop := ∀ c ∈ s, isCRLF c = false

theorem filter_noCRLF {s : Str} (h : NoCRLF s) : s.filter (fun c => !isCRLF c) = s := by
  rw [List.filter_eq_self]
  intro c hc
  simp [h c hc]

theorem b64Decode_of_noCRLF (url pad : Bool) {s : Str} (h : NoCRLF s) :
    b64Decode url pad s = b64DecodeCore url pad s := by
  simp [b64Decode, filter_noCRLF h]

theorem b64Encode_noCRLF (url pad : Bool) (s : Str) : NoCRLF (b64Encode url pad s) := by
  intro c hc
  rcases b64Encode_alphabet url pad s c hc with h | ⟨_, rfl⟩
  · exact isB64_not_isCRLF h
  · decide

theorem b64Encode_no_pipe (url pad : Bool) (s : Str) : '|' ∉ b64Encode url pad s := by
  intro hc
  rcases b64Encode_alphabet url pad s _ hc with h | ⟨_, h⟩
  · exact isB64_ne_pipe h rfl
  · exact absurd h (by decide)

theorem b64Encode_no_colon (url pad : Bool) (s : Str) : ':' ∉ b64Encode url pad s := by
  intro hc
  rcases b64Encode_alphabet url pad s _ hc with h | ⟨_, h⟩
  · exact isB64_ne_colon h rfl
  · exact absurd h (by decide)

/-- general round trip: decoding an encoding returns the byte-truncated input -/
theorem b64Decode_encode_gen (url pad : Bool) (s : Str) :
    b64Decode url pad (b64Encode url pad s) = some (s.map truncByte) := by
  rw [b64Decode_of_noCRLF url pad (b64Encode_noCRLF url pad s), b64DecodeCore_encode]

/-- round trip on byte strings, all four encodings -/
theorem b64Decode_encode (url pad : Bool) (s : Str) (h : IsBytes s) :
    b64Decode url pad (b64Encode url pad s) = some s := by
  rw [b64Decode_encode_gen, map_truncByte_of_isBytes h]

theorem b64Encode_pad_length_mod4 (url : Bool) (s : Str) :
    (b64Encode url true s).length % 4 = 0 := by
  rw [b64Encode_length]; simp

/-- a string accepted by a padded decoder has length ≡ 0 (mod 4) once CR/LF are removed -/
theorem b64Decode_pad_length (url : Bool) (s v : Str) (h : b64Decode url true s = some v) :
    (s.filter (fun c => !isCRLF c)).length % 4 = 0 :=
  b64DecodeCore_pad_length url _ v h

theorem b64Decode_isBytes (url pad : Bool) (s v : Str) (h : b64Decode url pad s = some v) :
    IsBytes v :=
  b64DecodeCore_isBytes url pad _ v h

/-- encoding distributes over `++` when the left part is a whole number of 3-byte groups -/
theorem b64Encode_append (url pad : Bool) (a b : Str) (h : a.length % 3 = 0) :
    b64Encode url pad (a ++ b) = b64Encode url pad a ++ b64Encode url pad b := by
  fun_induction b64Encode url pad a with
  | case1 x y z rest n ih =>
    have : rest.length % 3 = 0 := by simp only [List.length_cons] at h; omega
    simp only [List.cons_append, b64Encode, ih this]
    rfl
  | case2 x y n => simp at h
  | case3 x n => simp at h
  | case4 => simp

end O2P
