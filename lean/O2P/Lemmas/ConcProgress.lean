/-
  O2P.Lemmas.ConcProgress — absence of deadlock for the refresh-under-lock model.
-/
import O2P.Lemmas.Conc

namespace O2P.Conc

/-- Running `tid` alone for `k ≥ rank` steps, when the lock is free or its own, finishes it,
leaves the lock free and does not touch the other threads. -/
theorem run_self (g : Nat) (tid k : Nat) (c : Config) (h : Inv g c) (hn : tid < c.n)
    (hl : c.lock = none ∨ c.lock = some tid) (hk : rank (c.threads tid).pc ≤ k) :
    Inv g (run .real c (List.replicate k tid)) ∧
    (run .real c (List.replicate k tid)).n = c.n ∧
    (∃ r, ((run .real c (List.replicate k tid)).threads tid).pc = .done r) ∧
    (run .real c (List.replicate k tid)).lock = none ∧
    ∀ t, t ≠ tid → (run .real c (List.replicate k tid)).threads t = c.threads t := by
  induction k generalizing c with
  | zero =>
    have h0 : rank (c.threads tid).pc = 0 := by omega
    have hd : ∃ r, (c.threads tid).pc = .done r := by
      cases hpc : (c.threads tid).pc <;> simp [hpc, rank] at h0
      exact ⟨_, rfl⟩
    refine ⟨h, rfl, hd, ?_, fun _ _ => rfl⟩
    rcases hl with hl | hl
    · exact hl
    · obtain ⟨r, hr⟩ := hd
      have := (h.lockCS tid).1 hl
      simp [hr, inCS] at this
  | succ k ih =>
    obtain ⟨hp, hl', hn', hoth⟩ := step_progress g c tid h hn hl
    have hI := inv_step g c tid h
    have hk' : rank ((step .real c tid).threads tid).pc ≤ k := by
      rcases hp with hp | hp
      · omega
      · -- already done: the step is the identity on the pc
        have : (step .real c tid).threads tid = c.threads tid := by
          have hd : ∃ r, (c.threads tid).pc = .done r := by
            cases hpc : (c.threads tid).pc <;> simp [hpc, rank] at hp
            exact ⟨_, rfl⟩
          obtain ⟨r, hr⟩ := hd
          simp [step, hn, stepThread, hr]
        rw [this]; omega
    obtain ⟨a, b, c', d, e⟩ := ih (step .real c tid) hI (by omega) hl' hk'
    have hrun : run .real c (List.replicate (k+1) tid)
        = run .real (step .real c tid) (List.replicate k tid) := by
      simp [run, List.replicate_succ]
    rw [hrun]
    refine ⟨a, by omega, c', d, ?_⟩
    intro t ht
    rw [e t ht, hoth t ht]

theorem rank_le_ten (p : PC) : rank p ≤ 10 := by cases p <;> simp [rank]

/-- Threads `< k` can all be finished, starting from a configuration with a free lock. -/
theorem finish_upto (g : Nat) (c : Config) (h : Inv g c) (hl : c.lock = none) (k : Nat)
    (hk : k ≤ c.n) :
    ∃ sched, Inv g (run .real c sched) ∧ (run .real c sched).n = c.n ∧
      (run .real c sched).lock = none ∧
      ∀ t, t < k → ∃ r, ((run .real c sched).threads t).pc = .done r := by
  induction k with
  | zero => exact ⟨[], h, rfl, hl, fun t ht => by omega⟩
  | succ k ih =>
    obtain ⟨s, hI, hn, hl', hd⟩ := ih (by omega)
    obtain ⟨a, b, c', d, e⟩ := run_self g k 10 (run .real c s) hI (by omega) (Or.inl hl')
      (rank_le_ten _)
    refine ⟨s ++ List.replicate 10 k, ?_, ?_, ?_, ?_⟩
    · rw [run_append]; exact a
    · rw [run_append]; omega
    · rw [run_append]; exact d
    · intro t ht
      rw [run_append]
      by_cases htk : t = k
      · subst htk; exact c'
      · rw [e t htk]; exact hd t (by omega)

end O2P.Conc
