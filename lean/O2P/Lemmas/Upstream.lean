/-
  O2P.Lemmas.Upstream — helper lemmas for the C17 routing theorems.
-/
import O2P.Model.Upstream

namespace O2P
namespace Upstream

/-! ### the comparator -/

/-- `less` spelled out: rewrite before plain, otherwise longer path first. -/
theorem less_iff (a b : Upstream) :
    less a b = true ↔
      (a.isRewrite = true ∧ b.isRewrite = false) ∨
      (a.isRewrite = b.isRewrite ∧ b.path.length < a.path.length) := by
  unfold less
  cases ha : a.isRewrite <;> cases hb : b.isRewrite <;> simp

theorem less_eq_false_iff (a b : Upstream) :
    less a b = false ↔
      (a.isRewrite = false ∧ b.isRewrite = true) ∨
      (a.isRewrite = b.isRewrite ∧ a.path.length ≤ b.path.length) := by
  unfold less
  cases ha : a.isRewrite <;> cases hb : b.isRewrite <;> simp

theorem less_irrefl (a : Upstream) : less a a = false := by
  rw [less_eq_false_iff]; right; exact ⟨rfl, Nat.le_refl _⟩

theorem less_trans {a b c : Upstream} (h₁ : less a b = true) (h₂ : less b c = true) :
    less a c = true := by
  rw [less_iff] at *
  cases ha : a.isRewrite <;> cases hb : b.isRewrite <;> cases hc : c.isRewrite <;>
    simp_all <;> omega

theorem less_asymm {a b : Upstream} (h : less a b = true) : less b a = false := by
  rw [less_iff] at h
  rw [less_eq_false_iff]
  cases ha : a.isRewrite <;> cases hb : b.isRewrite <;> simp_all <;> omega

/-- negative transitivity (`≥` is transitive) -/
theorem not_less_trans {a b c : Upstream} (h₁ : less b a = false) (h₂ : less c b = false) :
    less c a = false := by
  rw [less_eq_false_iff] at *
  cases ha : a.isRewrite <;> cases hb : b.isRewrite <;> cases hc : c.isRewrite <;>
    simp_all <;> omega

/-- incomparability (`¬ a<b ∧ ¬ b<a`) is transitive -/
theorem incomp_trans {a b c : Upstream}
    (hab : less a b = false) (hba : less b a = false)
    (hbc : less b c = false) (hcb : less c b = false) :
    less a c = false ∧ less c a = false :=
  ⟨not_less_trans hbc hab, not_less_trans hba hcb⟩

/-- incomparable elements have the same kind and the same path length -/
theorem incomp_iff (a b : Upstream) :
    (less a b = false ∧ less b a = false) ↔
      (a.isRewrite = b.isRewrite ∧ a.path.length = b.path.length) := by
  rw [less_eq_false_iff, less_eq_false_iff]
  cases ha : a.isRewrite <;> cases hb : b.isRewrite <;> simp <;> omega

/-! ### insertion sort -/

theorem insertUp_perm (a : Upstream) (l : List Upstream) : (insertUp a l).Perm (a :: l) := by
  induction l with
  | nil => simp [insertUp]
  | cons b l ih =>
    unfold insertUp
    split
    · exact ((List.perm_cons b).2 ih).trans (List.Perm.swap a b l)
    · exact List.Perm.refl _

theorem sortUpstreams_perm (l : List Upstream) : (sortUpstreams l).Perm l := by
  induction l with
  | nil => simp [sortUpstreams]
  | cons a l ih =>
    unfold sortUpstreams
    exact (insertUp_perm a _).trans ((List.perm_cons a).2 ih)

theorem insertUp_ordered (a : Upstream) (l : List Upstream) (h : Ordered l) :
    Ordered (insertUp a l) := by
  induction l with
  | nil => simp [insertUp, Ordered]
  | cons b l ih =>
    unfold Ordered at h ih ⊢
    rw [List.pairwise_cons] at h
    unfold insertUp
    split
    · rename_i hba
      rw [List.pairwise_cons]
      refine ⟨?_, ih h.2⟩
      intro c hc
      rw [(insertUp_perm a l).mem_iff, List.mem_cons] at hc
      rcases hc with rfl | hc
      · exact less_asymm hba
      · exact h.1 c hc
    · rename_i hba
      have hba : less b a = false := by simpa using hba
      rw [List.pairwise_cons]
      refine ⟨?_, List.pairwise_cons.2 h⟩
      intro c hc
      rw [List.mem_cons] at hc
      rcases hc with rfl | hc
      · exact hba
      · exact not_less_trans hba (h.1 c hc)

theorem sortUpstreams_ordered (l : List Upstream) : Ordered (sortUpstreams l) := by
  induction l with
  | nil => simp [sortUpstreams, Ordered]
  | cons a l ih => unfold sortUpstreams; exact insertUp_ordered a _ ih

/-- index formulation of `Ordered`: `∀ i < j, ¬ less sorted[j] sorted[i]` -/
theorem ordered_iff_getElem (l : List Upstream) :
    Ordered l ↔ ∀ (i j : Nat) (_ : i < l.length) (_ : j < l.length), i < j → less l[j] l[i] = false :=
  List.pairwise_iff_getElem

/-! ### first match in an ordered list -/

/-- In a list without inversions the first element satisfying `p` is not beaten by any other
    element satisfying `p`. -/
theorem find?_ordered {p : Upstream → Bool} {l : List Upstream} {w : Upstream}
    (ho : Ordered l) (hf : l.find? p = some w) :
    ∀ v ∈ l, p v = true → less v w = false := by
  induction l with
  | nil => simp at hf
  | cons a t ih =>
    unfold Ordered at ho ih
    rw [List.pairwise_cons] at ho
    intro v hv hpv
    rw [List.find?_cons] at hf
    cases hpa : p a with
    | true =>
      rw [hpa] at hf
      injection hf with hf
      subst hf
      rcases List.mem_cons.1 hv with rfl | hv
      · exact less_irrefl _
      · exact ho.1 v hv
    | false =>
      rw [hpa] at hf
      rcases List.mem_cons.1 hv with rfl | hv
      · rw [hpa] at hpv; cases hpv
      · exact ih ho.2 hf v hv hpv

/-! ### plain (non-rewrite) routes match prefixes of the path -/

theorem routeMatches_rewrite {rx : Str → Str → Bool} {u : Upstream} {path : Str}
    (h : u.isRewrite = true) : routeMatches rx u path = rx u.path path := by
  simp [routeMatches, h]

/-- a plain route matches iff mux accepted the template and (prefix match for a path ending in
    `/`, exact match otherwise) -/
theorem routeMatches_plain_iff {rx : Str → Str → Bool} {u : Upstream} {path : Str}
    (h : u.isRewrite = false) :
    routeMatches rx u path = true ↔
      muxPathOK u.path = true ∧
        ((hasSuffix ['/'] u.path = true ∧ u.path <+: path) ∨
         (hasSuffix ['/'] u.path = false ∧ path = u.path)) := by
  unfold routeMatches
  rw [h]
  cases hok : muxPathOK u.path <;> cases hs : hasSuffix ['/'] u.path <;>
    simp [hasPrefix, List.isPrefixOf_iff_prefix]

theorem routeMatches_plain_prefix {rx : Str → Str → Bool} {u : Upstream} {path : Str}
    (h : u.isRewrite = false) (hm : routeMatches rx u path = true) : u.path <+: path := by
  rcases (routeMatches_plain_iff h).1 hm with ⟨_, ⟨_, hp⟩ | ⟨_, rfl⟩⟩
  · exact hp
  · exact List.prefix_refl _

/-- equal-length prefixes of the same string are equal -/
theorem prefix_eq_of_length_eq {α} {a b c : List α} (ha : a <+: c) (hb : b <+: c)
    (hl : a.length = b.length) : a = b :=
  (List.prefix_of_prefix_length_le ha hb (Nat.le_of_eq hl)).eq_of_length hl

/-- two plain routes that match the same request and have equally long paths have the same
    path (covers prefix/prefix, exact/exact and exact/prefix) -/
theorem plain_match_path_eq {rx : Str → Str → Bool} {u v : Upstream} {path : Str}
    (hu : u.isRewrite = false) (hv : v.isRewrite = false)
    (hmu : routeMatches rx u path = true) (hmv : routeMatches rx v path = true)
    (hl : u.path.length = v.path.length) : u.path = v.path :=
  prefix_eq_of_length_eq (routeMatches_plain_prefix hu hmu) (routeMatches_plain_prefix hv hmv) hl

/-! ### distinctness hypotheses -/

/-- no two plain upstreams (at different positions) share a path; this is what
    `validateUpstream` enforces (it even demands it of all upstreams) -/
def DistinctPlainPaths (ups : List Upstream) : Prop :=
  ups.Pairwise (fun a b => a.isRewrite = false → b.isRewrite = false → a.path ≠ b.path)

/-- no two rewrite upstreams have patterns of the same length -/
def DistinctRewriteLengths (ups : List Upstream) : Prop :=
  ups.Pairwise (fun a b => a.isRewrite = true → b.isRewrite = true → a.path.length ≠ b.path.length)

instance (l : List Upstream) : Decidable (DistinctPlainPaths l) := by
  unfold DistinctPlainPaths; infer_instance
instance (l : List Upstream) : Decidable (DistinctRewriteLengths l) := by
  unfold DistinctRewriteLengths; infer_instance

theorem pairwise_mem_eq {R : Upstream → Upstream → Prop} {l : List Upstream}
    (h : l.Pairwise R) {a b : Upstream} (ha : a ∈ l) (hb : b ∈ l) :
    a = b ∨ R a b ∨ R b a := by
  induction l with
  | nil => cases ha
  | cons c t ih =>
    rw [List.pairwise_cons] at h
    rcases List.mem_cons.1 ha with hac | hat <;> rcases List.mem_cons.1 hb with hbc | hbt
    · exact Or.inl (hac.trans hbc.symm)
    · exact Or.inr (Or.inl (hac ▸ h.1 b hbt))
    · exact Or.inr (Or.inr (hbc ▸ h.1 a hat))
    · exact ih h.2 hat hbt

theorem DistinctPlainPaths.eq_of_path_eq {ups : List Upstream} (hd : DistinctPlainPaths ups)
    {a b : Upstream} (ha : a ∈ ups) (hb : b ∈ ups)
    (hra : a.isRewrite = false) (hrb : b.isRewrite = false) (hp : a.path = b.path) : a = b := by
  rcases pairwise_mem_eq hd ha hb with h | h | h
  · exact h
  · exact absurd hp (h hra hrb)
  · exact absurd hp.symm (h hrb hra)

theorem DistinctRewriteLengths.eq_of_length_eq {ups : List Upstream}
    (hd : DistinctRewriteLengths ups)
    {a b : Upstream} (ha : a ∈ ups) (hb : b ∈ ups)
    (hra : a.isRewrite = true) (hrb : b.isRewrite = true)
    (hp : a.path.length = b.path.length) : a = b := by
  rcases pairwise_mem_eq hd ha hb with h | h | h
  · exact h
  · exact absurd hp (h hra hrb)
  · exact absurd hp.symm (h hrb hra)


/-! ## `Values` -/
namespace Values

theorem lookup_add (k v k' : Str) (m : Values) :
    lookup k' (add k v m) = if k = k' then lookup k' m ++ [v] else lookup k' m := by
  induction m with
  | nil =>
    by_cases h : k = k' <;> simp [add, lookup, h]
  | cons e rest ih =>
    obtain ⟨ke, vs⟩ := e
    unfold add
    by_cases h1 : ke = k
    · subst h1
      by_cases h : ke = k' <;> simp [lookup, h]
    · rw [if_neg h1]
      by_cases h2 : ke = k'
      · subst h2
        simp [lookup, Ne.symm h1]
      · simp only [lookup, if_neg h2]
        exact ih

theorem lookup_addAll (ps : List (Str × Str)) (m : Values) (k : Str) :
    lookup k (addAll ps m) = lookup k m ++ (ps.filter (fun kv => kv.1 = k)).map (·.2) := by
  unfold addAll
  induction ps generalizing m with
  | nil => simp
  | cons p ps ih =>
    rw [List.foldl_cons, ih, lookup_add]
    by_cases h : p.1 = k
    · simp [h]
    · simp [h]

theorem keys_add (k v : Str) (m : Values) :
    keys (add k v m) = if k ∈ keys m then keys m else keys m ++ [k] := by
  induction m with
  | nil => simp [add, keys]
  | cons e rest ih =>
    obtain ⟨ke, vs⟩ := e
    unfold add
    by_cases h1 : ke = k
    · subst h1; simp [keys]
    · rw [if_neg h1]
      simp only [keys, List.map_cons] at ih ⊢
      rw [ih]
      by_cases h2 : k ∈ List.map (·.1) rest
      · simp [h2]
      · simp [h2, Ne.symm h1]

theorem nodup_keys_add (k v : Str) (m : Values) (h : (keys m).Nodup) : (keys (add k v m)).Nodup := by
  rw [keys_add]
  split
  · exact h
  · rename_i hk
    rw [List.nodup_append]
    refine ⟨h, by simp, ?_⟩
    intro a ha b hb
    simp at hb; subst hb
    intro hab; subst hab; exact hk ha

theorem nodup_keys_addAll (ps : List (Str × Str)) (m : Values) (h : (keys m).Nodup) :
    (keys (addAll ps m)).Nodup := by
  unfold addAll
  induction ps generalizing m with
  | nil => simpa
  | cons p ps ih => rw [List.foldl_cons]; exact ih _ (nodup_keys_add _ _ _ h)

theorem nodup_keys_ofPairs (ps : List (Str × Str)) : (keys (ofPairs ps)).Nodup :=
  nodup_keys_addAll ps [] (by simp [keys])

/-- with distinct keys, every entry is what `lookup` returns -/
theorem lookup_of_mem {m : Values} (h : (keys m).Nodup) {e : Str × List Str} (he : e ∈ m) :
    lookup e.1 m = e.2 := by
  induction m with
  | nil => cases he
  | cons f rest ih =>
    obtain ⟨kf, vf⟩ := f
    simp only [keys, List.map_cons, List.nodup_cons] at h
    rcases List.mem_cons.1 he with rfl | he
    · simp [lookup]
    · have hne : kf ≠ e.1 := by
        intro hk
        apply h.1
        rw [hk]
        exact List.mem_map_of_mem (f := (·.1)) he
      simp only [lookup, if_neg hne]
      exact ih h.2 he

end Values

theorem insertKey_perm (e : Str × List Str) (l : Values) : (insertKey e l).Perm (e :: l) := by
  induction l with
  | nil => simp [insertKey]
  | cons f l ih =>
    unfold insertKey
    split
    · exact List.Perm.refl _
    · exact ((List.perm_cons f).2 ih).trans (List.Perm.swap e f l)

theorem sortByKey_perm (m : Values) : (sortByKey m).Perm m := by
  induction m with
  | nil => simp [sortByKey]
  | cons e l ih =>
    unfold sortByKey
    exact (insertKey_perm e _).trans ((List.perm_cons e).2 ih)

theorem strLe_total (a b : Str) : strLe a b = true ∨ strLe b a = true := by
  induction a generalizing b with
  | nil => left; simp [strLe]
  | cons x xs ih =>
    cases b with
    | nil => right; simp [strLe]
    | cons y ys =>
      unfold strLe
      by_cases h1 : x < y
      · left; simp [h1]
      · by_cases h2 : y < x
        · right; simp [h2]
        · simp only [h1, h2, if_false]
          exact ih ys

theorem strLe_trans {a b c : Str} (h₁ : strLe a b = true) (h₂ : strLe b c = true) :
    strLe a c = true := by
  induction a generalizing b c with
  | nil => simp [strLe]
  | cons x xs ih =>
    cases b with
    | nil => simp [strLe] at h₁
    | cons y ys =>
      cases c with
      | nil => simp [strLe] at h₂
      | cons z zs =>
        unfold strLe at h₁ h₂ ⊢
        by_cases a1 : x < y
        · by_cases b1 : y < z
          · have : x < z := Char.lt_trans a1 b1
            simp [this]
          · by_cases b2 : z < y
            · simp [b1, b2] at h₂
            · have hyz : y = z := Char.le_antisymm (Char.not_lt.1 b2) (Char.not_lt.1 b1)
              subst hyz; simp [a1]
        · by_cases a2 : y < x
          · simp [a1, a2] at h₁
          · have hxy : x = y := Char.le_antisymm (Char.not_lt.1 a2) (Char.not_lt.1 a1)
            subst hxy
            simp only [a1, if_false] at h₁
            by_cases b1 : x < z
            · simp [b1]
            · by_cases b2 : z < x
              · simp [b1, b2] at h₂
              · simp only [b1, b2, if_false] at h₂ ⊢
                exact ih h₁ h₂

/-- the keys of `sortByKey m` are sorted w.r.t. byte-wise `≤` -/
theorem sortByKey_sorted (m : Values) :
    (sortByKey m).Pairwise (fun e f => strLe e.1 f.1 = true) := by
  induction m with
  | nil => simp [sortByKey]
  | cons e l ih =>
    unfold sortByKey
    generalize sortByKey l = s at ih
    induction s with
    | nil => simp [insertKey]
    | cons f s ihs =>
      rw [List.pairwise_cons] at ih
      unfold insertKey
      split
      · rename_i hef
        rw [List.pairwise_cons]
        refine ⟨?_, List.pairwise_cons.2 ih⟩
        intro g hg
        rcases List.mem_cons.1 hg with rfl | hg
        · exact hef
        · exact strLe_trans hef (ih.1 g hg)
      · rename_i hef
        have hfe : strLe f.1 e.1 = true := by
          rcases strLe_total e.1 f.1 with h | h
          · exact absurd h hef
          · exact h
        rw [List.pairwise_cons]
        refine ⟨?_, ihs ih.2⟩
        intro g hg
        rw [(insertKey_perm e s).mem_iff, List.mem_cons] at hg
        rcases hg with rfl | hg
        · exact hfe
        · exact ih.1 g hg

end Upstream
end O2P

/-! ## mux `cleanPath` never returns a path starting with `//` -/
namespace O2P
namespace Upstream

/-- a "good" segment: non-empty and slash-free -/
def GoodSeg (s : Str) : Prop := s ≠ [] ∧ '/' ∉ s

theorem cleanSegs_good (segs acc : List Str) (hs : ∀ s ∈ segs, '/' ∉ s)
    (ha : ∀ s ∈ acc, GoodSeg s) : ∀ s ∈ cleanSegs segs acc, GoodSeg s := by
  induction segs generalizing acc with
  | nil => intro s hs'; exact ha s (by simpa [cleanSegs] using hs')
  | cons x rest ih =>
    have hrest : ∀ s ∈ rest, '/' ∉ s := fun s h => hs s (List.mem_cons_of_mem _ h)
    unfold cleanSegs
    split
    · exact ih acc hrest ha
    · split
      · exact ih acc.tail hrest (fun s h => ha s (List.mem_of_mem_tail h))
      · rename_i h1 _
        apply ih (x :: acc) hrest
        intro s h
        rcases List.mem_cons.1 h with rfl | h
        · exact ⟨fun he => h1 (Or.inl he), hs s (List.mem_cons_self)⟩
        · exact ha s h

theorem joinWith_cons_eq (sep : Char) (s : Str) (rest : List Str) :
    ∃ t, joinWith sep (s :: rest) = s ++ t := by
  cases rest with
  | nil => exact ⟨[], by simp [joinWith]⟩
  | cons q qs => exact ⟨sep :: joinWith sep (q :: qs), by simp [joinWith]⟩

theorem pathCleanRooted_not_double_slash (p : Str) :
    hasPrefix ['/', '/'] (pathCleanRooted p) = false ∧
    (pathCleanRooted p = ['/'] ∨ ∃ c t, pathCleanRooted p = '/' :: c :: t ∧ c ≠ '/') := by
  unfold pathCleanRooted
  have hgood := cleanSegs_good (splitOn '/' p) [] (splitOn_no_sep '/' p) (by simp)
  cases hseg : cleanSegs (splitOn '/' p) [] with
  | nil => simp [joinWith, hasPrefix]
  | cons s rest =>
    rw [hseg] at hgood
    obtain ⟨hne, hns⟩ := hgood s List.mem_cons_self
    obtain ⟨t, ht⟩ := joinWith_cons_eq '/' s rest
    rw [ht]
    cases s with
    | nil => exact absurd rfl hne
    | cons c cs =>
      have hc : c ≠ '/' := fun h => hns (h ▸ List.mem_cons_self)
      refine ⟨?_, Or.inr ⟨c, cs ++ t, rfl, hc⟩⟩
      simp [hasPrefix, List.isPrefixOf, Ne.symm hc]

/-- mux's `cleanPath` never yields a path that starts with `//` -/
theorem cleanPath_not_double_slash (p : Str) : hasPrefix ['/', '/'] (cleanPath p) = false := by
  unfold cleanPath
  split
  · simp [hasPrefix, List.isPrefixOf]
  · simp only
    generalize (if p.head? = some '/' then p else '/' :: p) = p'
    obtain ⟨h1, h2⟩ := pathCleanRooted_not_double_slash p'
    split
    · rcases h2 with h2 | ⟨c, t, h2, hc⟩
      · rename_i hcond
        simp [h2] at hcond
      · rw [h2]
        simp [hasPrefix, List.isPrefixOf, Ne.symm hc]
    · exact h1

/-- hence a path that survives the clean-path check does not start with `//`, and neither does an
    origin-form request target built from it -/
theorem not_double_slash_of_clean {p : Str} (h : cleanPath p = p) (rest : Str)
    (hrest : rest = [] ∨ ∃ q, rest = '?' :: q) (hp : p ≠ []) :
    hasPrefix ['/', '/'] (p ++ rest) = false := by
  have h0 := cleanPath_not_double_slash p
  rw [h] at h0
  match p, hp with
  | [c], _ =>
    rcases hrest with rfl | ⟨q, rfl⟩
    · simp [hasPrefix, List.isPrefixOf]
    · simp [hasPrefix, List.isPrefixOf]
  | c :: d :: t, _ =>
    simpa [hasPrefix, List.isPrefixOf] using h0

end Upstream
end O2P
