/-
  O2P.Lemmas.Publish — invariants of the snapshot-publication model (`O2P.Pub`, variant
  `.real`) and of the reader/writer-mutex model (`O2P.Lockset`).
-/
import O2P.Model.Publish

namespace O2P.Pub

/-- Per-thread part of the invariant. -/
def ThreadOK (heap pubs : List Snapshot) : PT → Prop
  | .rPublish p => ∃ sn, heap[p]? = some sn
  | .rDone (some k) => k < pubs.length
  | .vRead _ s => s < pubs.length
  | .vLookup _ s p => ∃ i sn, s ≤ i ∧ pubs[i]? = some sn ∧ heap[p]? = some sn
  | .vRet key s a => ∃ i sn, s ≤ i ∧ pubs[i]? = some sn ∧ a = lookup key sn
  | .vDone key s e a => ∃ i sn, s ≤ i ∧ i ≤ e ∧ e < pubs.length ∧ pubs[i]? = some sn ∧
      a = lookup key sn
  | .rClear _ | .rFill _ | .vRead2 .. | .vLookup2 .. => False
  | _ => True

structure Inv (c : Config) : Prop where
  cell : ∃ sn, c.heap[c.cell]? = some sn ∧ c.pubs[c.pubs.length - 1]? = some sn
  thr  : ∀ t, ThreadOK c.heap c.pubs (c.threads t)

@[simp] theorem setT_threads (c : Config) (tid : Nat) (th : PT) (t : Nat) :
    (c.setT tid th).threads t = if t = tid then th else c.threads t := rfl
@[simp] theorem setT_heap (c : Config) (tid : Nat) (th : PT) : (c.setT tid th).heap = c.heap := rfl
@[simp] theorem setT_pubs (c : Config) (tid : Nat) (th : PT) : (c.setT tid th).pubs = c.pubs := rfl
@[simp] theorem setT_cell (c : Config) (tid : Nat) (th : PT) : (c.setT tid th).cell = c.cell := rfl
@[simp] theorem setT_files (c : Config) (tid : Nat) (th : PT) : (c.setT tid th).files = c.files := rfl
@[simp] theorem setT_fileIdx (c : Config) (tid : Nat) (th : PT) :
    (c.setT tid th).fileIdx = c.fileIdx := rfl

theorem inv_init (initial : Snapshot) (files : List (Option Snapshot)) (roles : List Role) :
    Inv (init initial files roles) := by
  refine ⟨⟨initial, by simp [init], by simp [init]⟩, ?_⟩
  intro t
  simp only [init]
  cases h : roles[t]? with
  | none => simp [ThreadOK]
  | some r => cases r <;> simp [Role.start, ThreadOK]

/-- `ThreadOK` is stable under appending to the heap and to the publication log. -/
theorem threadOK_mono (heap pubs h' p' : List Snapshot) (th : PT)
    (h : ThreadOK heap pubs th) : ThreadOK (heap ++ h') (pubs ++ p') th := by
  cases th <;> (try simp only [ThreadOK] at h ⊢)
  case rPublish p =>
    obtain ⟨sn, hsn⟩ := h
    exact ⟨sn, by rw [List.getElem?_append_left]; exact hsn; exact (List.getElem?_eq_some_iff.1 hsn).1⟩
  case rDone pub =>
    cases pub with
    | none => trivial
    | some k => simp only [List.length_append] at h ⊢; omega
  case vRead key s => simp; omega
  case vLookup key s p =>
    obtain ⟨i, sn, h1, h2, h3⟩ := h
    refine ⟨i, sn, h1, ?_, ?_⟩
    · rw [List.getElem?_append_left (List.getElem?_eq_some_iff.1 h2).1]; exact h2
    · rw [List.getElem?_append_left (List.getElem?_eq_some_iff.1 h3).1]; exact h3
  case vRet key s a =>
    obtain ⟨i, sn, h1, h2, h3⟩ := h
    refine ⟨i, sn, h1, ?_, h3⟩
    rw [List.getElem?_append_left (List.getElem?_eq_some_iff.1 h2).1]; exact h2
  case vDone key s e a =>
    obtain ⟨i, sn, h1, h2, h3, h4, h5⟩ := h
    refine ⟨i, sn, h1, h2, by simp; omega, ?_, h5⟩
    rw [List.getElem?_append_left (List.getElem?_eq_some_iff.1 h4).1]; exact h4
  all_goals trivial

theorem inv_step (c : Config) (tid : Nat) (h : Inv c) : Inv (step .real c tid) := by
  obtain ⟨⟨sn0, hc1, hc2⟩, hthr⟩ := h
  have hme := hthr tid
  have hlen : 0 < c.pubs.length := by
    have := (List.getElem?_eq_some_iff.1 hc2).1; omega
  have keep : ∀ th, ThreadOK c.heap c.pubs th → Inv (c.setT tid th) := by
    intro th hth
    refine ⟨⟨sn0, hc1, hc2⟩, fun t => ?_⟩
    by_cases ht : t = tid
    · subst ht; simpa using hth
    · simp [ht]; exact hthr t
  unfold step
  cases hpc : c.threads tid <;> simp only [hpc] at hme ⊢
  case idle => exact ⟨⟨sn0, hc1, hc2⟩, hthr⟩
  case writer => exact ⟨⟨sn0, hc1, hc2⟩, hthr⟩
  case rDone => exact ⟨⟨sn0, hc1, hc2⟩, hthr⟩
  case vDone => exact ⟨⟨sn0, hc1, hc2⟩, hthr⟩
  case rRead => exact keep _ (by simp [ThreadOK])
  case rParse f =>
    cases f with
    | none => exact keep _ (by simp [ThreadOK])
    | some s =>
      simp only [show (Variant.real = Variant.twoStep) = False by simp, if_false]
      exact keep _ (by simp [ThreadOK])
  case rBuild s =>
    refine ⟨⟨sn0, ?_, hc2⟩, fun t => ?_⟩
    · simp only [setT_heap, setT_cell]
      rw [List.getElem?_append_left (List.getElem?_eq_some_iff.1 hc1).1]; exact hc1
    · by_cases ht : t = tid
      · subst ht; simp [ThreadOK]
      · simp only [setT_threads, ht, if_false, setT_heap, setT_pubs]
        have := threadOK_mono c.heap c.pubs [s] [] _ (hthr t)
        simpa using this
  case rPublish p =>
    simp only [ThreadOK] at hme
    obtain ⟨sn, hsn⟩ := hme
    have hd : c.deref p = sn := by simp [Config.deref, hsn]
    refine ⟨⟨sn, ?_, ?_⟩, fun t => ?_⟩
    · simpa using hsn
    · simp [hd]
    · by_cases ht : t = tid
      · subst ht; simp [ThreadOK]
      · simp only [setT_threads, ht, if_false, setT_heap, setT_pubs]
        have := threadOK_mono c.heap c.pubs [] [c.deref p] _ (hthr t)
        simpa using this
  case rClear => simp [ThreadOK] at hme
  case rFill => simp [ThreadOK] at hme
  case vRead2 => simp [ThreadOK] at hme
  case vLookup2 => simp [ThreadOK] at hme
  case vStart key =>
    exact keep _ (by simp only [ThreadOK, Config.curIdx]; omega)
  case vRead key s =>
    simp only [ThreadOK] at hme
    exact keep _ ⟨c.pubs.length - 1, sn0, by omega, hc2, hc1⟩
  case vLookup key s p =>
    simp only [show (Variant.real = Variant.readTwice) = False by simp, if_false]
    simp only [ThreadOK] at hme
    obtain ⟨i, sn, h1, h2, h3⟩ := hme
    exact keep _ ⟨i, sn, h1, h2, by simp [Config.deref, h3]⟩
  case vRet key s a =>
    simp only [ThreadOK] at hme
    obtain ⟨i, sn, h1, h2, h3⟩ := hme
    have := (List.getElem?_eq_some_iff.1 h2).1
    exact keep _ ⟨i, sn, h1, by simp only [Config.curIdx]; omega,
      by simp only [Config.curIdx]; omega, h2, h3⟩

theorem inv_run (c : Config) (sched : List Nat) (h : Inv c) : Inv (run .real c sched) := by
  induction sched generalizing c with
  | nil => exact h
  | cons t ts ih => exact ih _ (inv_step c t h)

theorem run_append (v : Variant) (c : Config) (s1 s2 : List Nat) :
    run v c (s1 ++ s2) = run v (run v c s1) s2 := by
  simp [run, List.foldl_append]

/-- In the real variant the heap and the publication log only ever grow at the end:
allocated maps are immutable and version indices are stable. -/
theorem step_grows (c : Config) (tid : Nat) (h : Inv c) :
    ∃ e1 e2, (step .real c tid).heap = c.heap ++ e1 ∧ (step .real c tid).pubs = c.pubs ++ e2 := by
  have hme := h.thr tid
  unfold step
  cases hpc : c.threads tid <;> simp only [hpc] at hme ⊢
  case rBuild s => exact ⟨[s], [], by simp, by simp⟩
  case rPublish p => exact ⟨[], [c.deref p], by simp, by simp⟩
  case rClear => simp [ThreadOK] at hme
  case rFill => simp [ThreadOK] at hme
  case rParse f => cases f <;> simp
  case vLookup => simp
  all_goals exact ⟨[], [], by simp, by simp⟩

theorem run_grows (c : Config) (sched : List Nat) (h : Inv c) :
    ∃ e1 e2, (run .real c sched).heap = c.heap ++ e1 ∧ (run .real c sched).pubs = c.pubs ++ e2 := by
  induction sched generalizing c with
  | nil => exact ⟨[], [], by simp [run], by simp [run]⟩
  | cons t ts ih =>
    obtain ⟨a1, a2, ha1, ha2⟩ := step_grows c t h
    obtain ⟨b1, b2, hb1, hb2⟩ := ih _ (inv_step c t h)
    refine ⟨a1 ++ b1, a2 ++ b2, ?_, ?_⟩
    · show (run .real (step .real c t) ts).heap = _
      rw [hb1, ha1, List.append_assoc]
    · show (run .real (step .real c t) ts).pubs = _
      rw [hb2, ha2, List.append_assoc]

/-- The recorded start index of a validation, once it has started. -/
def startOf : PT → Option Nat
  | .vRead _ s | .vLookup _ s _ | .vRead2 _ s | .vLookup2 _ s _ | .vRet _ s _
  | .vDone _ s _ _ => some s
  | _ => none

/-- Version `k` exists and validation `t` either has not started or started at an index ≥ `k`. -/
def StartsAfter (k t key : Nat) (c : Config) : Prop :=
  k < c.pubs.length ∧ (c.threads t = .vStart key ∨ ∃ s, startOf (c.threads t) = some s ∧ k ≤ s)

set_option linter.unnecessarySimpa false in
set_option linter.unusedSimpArgs false in
theorem startsAfter_step (k t key : Nat) (c : Config) (tid : Nat) (h : StartsAfter k t key c) :
    StartsAfter k t key (step .real c tid) := by
  obtain ⟨hk, ht⟩ := h
  have other : ∀ th, t ≠ tid →
      ((c.setT tid th).threads t = .vStart key ∨
        ∃ s, startOf ((c.setT tid th).threads t) = some s ∧ k ≤ s) := by
    intro th htt; simpa [htt] using ht
  unfold step
  cases hpc : c.threads tid <;> (try simp only [hpc])
  case idle => exact ⟨hk, ht⟩
  case writer => exact ⟨hk, ht⟩
  case rDone => exact ⟨hk, ht⟩
  case vDone => exact ⟨hk, ht⟩
  case rParse f =>
    cases f <;> simp <;> refine ⟨by simpa using hk, ?_⟩ <;>
      (by_cases htt : t = tid
       · subst htt; simp [hpc, startOf] at ht
       · exact other _ htt)
  case vLookup key' s p =>
    simp; refine ⟨by simpa using hk, ?_⟩
    by_cases htt : t = tid
    · subst htt; simpa [hpc, startOf] using ht
    · exact other _ htt
  case vStart key' =>
    refine ⟨by simpa using hk, ?_⟩
    by_cases htt : t = tid
    · subst htt; simp [startOf, Config.curIdx]; omega
    · exact other _ htt
  all_goals
    refine ⟨by (try simp only [setT_pubs, List.length_append]); omega, ?_⟩
    by_cases htt : t = tid
    · subst htt; simpa [hpc, startOf] using ht
    · simpa [htt] using ht

theorem startsAfter_run (k t key : Nat) (c : Config) (sched : List Nat)
    (h : StartsAfter k t key c) : StartsAfter k t key (run .real c sched) := by
  induction sched generalizing c with
  | nil => exact h
  | cons a as ih => exact ih _ (startsAfter_step k t key c a h)

end O2P.Pub

/-! ## Reader/writer mutex model -/

namespace O2P.Lockset

open O2P.Race

/-- Thread `t` is inside a critical section on lock `l` held in mode `m`. -/
def InCS (c : LConfig) (m : LockMode) (t : Nat) (l : String) : Prop :=
  ∃ th, c.threads t = some th ∧ th.pc = .inCS ∧ th.fact.lockMode = m ∧ th.fact.lock = l

/-- Invariant of the mutex model: the lock state mirrors exactly who is inside a critical
section in which mode, writers exclude readers, and a thread's fact never changes. -/
structure LInv (prog : List AccessFact) (c : LConfig) : Prop where
  w : ∀ l t, (c.locks l).writer = some t ↔ InCS c .W t l
  r : ∀ l t, t ∈ (c.locks l).readers ↔ InCS c .R t l
  excl : ∀ l t, (c.locks l).writer = some t → (c.locks l).readers = []
  prog : ∀ t th, c.threads t = some th → prog[t]? = some th.fact

@[simp] theorem setT_threads (c : LConfig) (tid : Nat) (th : LThread) (t : Nat) :
    (c.setT tid th).threads t = if t = tid then some th else c.threads t := rfl
@[simp] theorem setT_locks (c : LConfig) (tid : Nat) (th : LThread) :
    (c.setT tid th).locks = c.locks := rfl
@[simp] theorem setL_threads (c : LConfig) (l : String) (rw : RW) :
    (c.setL l rw).threads = c.threads := rfl
@[simp] theorem setL_locks (c : LConfig) (l : String) (rw : RW) (x : String) :
    (c.setL l rw).locks x = if x = l then rw else c.locks x := rfl

theorem inCS_setT_self (c : LConfig) (tid : Nat) (th : LThread) (m : LockMode) (l : String) :
    InCS (c.setT tid th) m tid l ↔ (th.pc = .inCS ∧ th.fact.lockMode = m ∧ th.fact.lock = l) := by
  simp [InCS]

theorem inCS_setT_other (c : LConfig) (tid : Nat) (th : LThread) (m : LockMode) (t : Nat)
    (l : String) (h : t ≠ tid) : InCS (c.setT tid th) m t l ↔ InCS c m t l := by
  simp [InCS, h]

theorem inCS_setL (c : LConfig) (l' : String) (rw : RW) (m : LockMode) (t : Nat) (l : String) :
    InCS (c.setL l' rw) m t l ↔ InCS c m t l := Iff.rfl

theorem inCS_self (c : LConfig) (tid : Nat) (th : LThread) (m : LockMode) (l : String)
    (h : c.threads tid = some th) :
    InCS c m tid l ↔ (th.pc = .inCS ∧ th.fact.lockMode = m ∧ th.fact.lock = l) := by
  simp [InCS, h]

theorem linv_init (prog : List AccessFact) : LInv prog (linit prog) := by
  refine ⟨?_, ?_, ?_, ?_⟩
  · intro l t; simp only [linit, InCS]
    cases h : prog[t]? <;> simp
  · intro l t; simp only [linit, InCS]
    cases h : prog[t]? <;> simp
  · intro l t h; rfl
  · intro t th h
    simp only [linit] at h
    cases hp : prog[t]? with
    | none => simp [hp] at h
    | some f => simp [hp] at h; subst h; rfl

/-- Changing only the pc of thread `tid` keeps the `prog` component. -/
theorem prog_setT (prog : List AccessFact) (c : LConfig) (tid : Nat) (f : AccessFact) (pc pc' : LPC)
    (hth : c.threads tid = some ⟨f, pc⟩)
    (hp : ∀ t th, c.threads t = some th → prog[t]? = some th.fact) :
    ∀ t th, (c.setT tid ⟨f, pc'⟩).threads t = some th → prog[t]? = some th.fact := by
  intro t th h
  by_cases ht : t = tid
  · subst ht; simp at h; subst h; simpa using hp _ _ hth
  · simp [ht] at h; exact hp _ _ h

theorem linv_step (prog : List AccessFact) (c : LConfig) (tid : Nat) (h : LInv prog c) :
    LInv prog (lstep c tid) := by
  obtain ⟨hw, hr, hx, hp⟩ := h
  unfold lstep
  cases hth : c.threads tid with
  | none => exact ⟨hw, hr, hx, hp⟩
  | some th =>
    obtain ⟨f, pc⟩ := th
    have meW := fun l => inCS_self c tid _ .W l hth
    have meR := fun l => inCS_self c tid _ .R l hth
    cases pc <;> simp only
    case finished => exact ⟨hw, hr, hx, hp⟩
    case idle =>
      simp only [] at meW meR
      cases hm : f.lockMode <;> simp only
      case none =>
        refine ⟨?_, ?_, hx, prog_setT prog c tid f _ _ hth hp⟩
        · intro l t
          by_cases ht : t = tid
          · subst ht; rw [inCS_setT_self]; simp [hw, meW, hm]
          · rw [inCS_setT_other _ _ _ _ _ _ ht]; exact hw l t
        · intro l t
          by_cases ht : t = tid
          · subst ht; rw [inCS_setT_self]; simp [hr, meR, hm]
          · rw [inCS_setT_other _ _ _ _ _ _ ht]; exact hr l t
      case R =>
        split
        · rename_i hfree
          refine ⟨?_, ?_, ?_, ?_⟩
          · intro l t
            by_cases ht : t = tid
            · subst ht; rw [inCS_setT_self]
              by_cases hl : l = f.lock <;> simp [hl, hw, meW, hm]
            · rw [inCS_setT_other _ _ _ _ _ _ ht, inCS_setL, ← hw]
              by_cases hl : l = f.lock <;> simp [hl]
          · intro l t
            by_cases ht : t = tid
            · subst ht; rw [inCS_setT_self]
              by_cases hl : l = f.lock
              · simp [hl, hm]
              · simp [hl, hr, meR, hm]; exact fun h => hl h.symm
            · rw [inCS_setT_other _ _ _ _ _ _ ht, inCS_setL, ← hr]
              by_cases hl : l = f.lock <;> simp [hl, ht]
          · intro l t
            by_cases hl : l = f.lock
            · simp [hl, hfree]
            · simp [hl]; exact hx l t
          · exact prog_setT prog _ tid f _ _ (by simpa using hth) (by simpa using hp)
        · exact ⟨hw, hr, hx, hp⟩
      case W =>
        split
        · rename_i hfree
          obtain ⟨hfw, hfr⟩ := hfree
          refine ⟨?_, ?_, ?_, ?_⟩
          · intro l t
            by_cases ht : t = tid
            · subst ht; rw [inCS_setT_self]
              by_cases hl : l = f.lock
              · simp [hl, hm]
              · simp [hl, hw, meW, hm]; exact fun h => hl h.symm
            · rw [inCS_setT_other _ _ _ _ _ _ ht, inCS_setL, ← hw]
              by_cases hl : l = f.lock
              · simp [hl, hfw]; exact fun h => ht h.symm
              · simp [hl]
          · intro l t
            by_cases ht : t = tid
            · subst ht; rw [inCS_setT_self]
              by_cases hl : l = f.lock <;> simp [hl, hr, meR, hm, hfr]
            · rw [inCS_setT_other _ _ _ _ _ _ ht, inCS_setL, ← hr]
              by_cases hl : l = f.lock <;> simp [hl]
          · intro l t
            by_cases hl : l = f.lock
            · simp [hl, hfr]
            · simp [hl]; exact hx l t
          · exact prog_setT prog _ tid f _ _ (by simpa using hth) (by simpa using hp)
        · exact ⟨hw, hr, hx, hp⟩
    case inCS =>
      simp only [] at meW meR
      cases hm : f.lockMode <;> simp only
      case none =>
        refine ⟨?_, ?_, hx, prog_setT prog c tid f _ _ hth hp⟩
        · intro l t
          by_cases ht : t = tid
          · subst ht; rw [inCS_setT_self]; simp [hw, meW, hm]
          · rw [inCS_setT_other _ _ _ _ _ _ ht]; exact hw l t
        · intro l t
          by_cases ht : t = tid
          · subst ht; rw [inCS_setT_self]; simp [hr, meR, hm]
          · rw [inCS_setT_other _ _ _ _ _ _ ht]; exact hr l t
      case R =>
        refine ⟨?_, ?_, ?_, ?_⟩
        · intro l t
          by_cases ht : t = tid
          · subst ht; rw [inCS_setT_self]
            by_cases hl : l = f.lock <;> simp [hl, hw, meW, hm]
          · rw [inCS_setT_other _ _ _ _ _ _ ht, inCS_setL, ← hw]
            by_cases hl : l = f.lock <;> simp [hl]
        · intro l t
          by_cases ht : t = tid
          · subst ht; rw [inCS_setT_self]
            by_cases hl : l = f.lock
            · simp [hl]
            · simp [hl, hr, meR, hm]; exact fun h => hl h.symm
          · rw [inCS_setT_other _ _ _ _ _ _ ht, inCS_setL, ← hr]
            by_cases hl : l = f.lock <;> simp [hl, ht]
        · intro l t
          by_cases hl : l = f.lock
          · simp [hl]; intro hwt; simp [hx _ _ hwt]
          · simp [hl]; exact hx l t
        · exact prog_setT prog _ tid f _ _ (by simpa using hth) (by simpa using hp)
      case W =>
        have hmine : (c.locks f.lock).writer = some tid := (hw f.lock tid).2 ((meW f.lock).2 (by simp [hm]))
        refine ⟨?_, ?_, ?_, ?_⟩
        · intro l t
          by_cases ht : t = tid
          · subst ht; rw [inCS_setT_self]
            by_cases hl : l = f.lock
            · simp [hl]
            · simp [hl, hw, meW, hm]; exact fun h => hl h.symm
          · rw [inCS_setT_other _ _ _ _ _ _ ht, inCS_setL, ← hw]
            by_cases hl : l = f.lock
            · simp [hl, hmine]; exact fun h => ht h.symm
            · simp [hl]
        · intro l t
          by_cases ht : t = tid
          · subst ht; rw [inCS_setT_self]
            by_cases hl : l = f.lock <;> simp [hl, hr, meR, hm]
          · rw [inCS_setT_other _ _ _ _ _ _ ht, inCS_setL, ← hr]
            by_cases hl : l = f.lock <;> simp [hl]
        · intro l t
          by_cases hl : l = f.lock
          · simp [hl]
          · simp [hl]; exact hx l t
        · exact prog_setT prog _ tid f _ _ (by simpa using hth) (by simpa using hp)

theorem linv_run (prog : List AccessFact) (c : LConfig) (sched : List Nat) (h : LInv prog c) :
    LInv prog (lrun c sched) := by
  induction sched generalizing c with
  | nil => exact h
  | cons t ts ih => exact ih _ (linv_step prog c t h)

end O2P.Lockset
