/-
  O2P.Lemmas.Authz — helper lemmas for the authorisation model (C08).
-/
import O2P.Model.Authz

namespace O2P.Authz

/-! ## prefix / suffix as propositions -/

theorem hasSuffix_iff (p s : Str) : hasSuffix p s = true ↔ p <:+ s := by
  simp [hasSuffix]

theorem hasPrefix_iff (p s : Str) : hasPrefix p s = true ↔ p <+: s := by
  simp [hasPrefix]

theorem hasPrefix_dot (d : Str) : hasPrefix ['.'] d = true ↔ ∃ r, d = '.' :: r := by
  cases d with
  | nil => simp [hasPrefix]
  | cons c r =>
    simp only [hasPrefix, List.isPrefixOf_cons_cons, List.isPrefixOf_nil_left, Bool.and_true,
      beq_iff_eq, List.cons.injEq]
    constructor
    · rintro rfl; exact ⟨r, rfl, rfl⟩
    · rintro ⟨r', rfl, _⟩; rfl

theorem hasPrefix_stardot (d : Str) : hasPrefix ['*', '.'] d = true ↔ ∃ r, d = '*' :: '.' :: r := by
  match d with
  | [] => simp [hasPrefix]
  | [c] => simp [hasPrefix]
  | a :: b :: r =>
    simp only [hasPrefix, List.isPrefixOf_cons_cons, List.cons.injEq, List.isPrefixOf_nil_left,
      Bool.and_true, Bool.and_eq_true, beq_iff_eq]
    constructor
    · rintro ⟨rfl, rfl⟩; exact ⟨r, rfl, rfl, rfl⟩
    · rintro ⟨r', rfl, rfl, _⟩; exact ⟨rfl, rfl⟩

/-! ## the last atom of an e-mail address -/

theorem getLastD_cons_ne_nil {α} (x : α) (L : List α) (d : α) (h : L ≠ []) :
    (x :: L).getLastD d = L.getLastD d := by
  cases L with
  | nil => exact absurd rfl h
  | cons y ys => simp [List.getLastD]

theorem splitOn_mem_two (sep : Char) (s : Str) (h : sep ∈ s) :
    ∃ p q qs, splitOn sep s = p :: q :: qs := by
  induction s with
  | nil => simp at h
  | cons c cs ih =>
    by_cases hc : c = sep
    · subst hc
      rw [splitOn_cons_eq]
      cases hsp : splitOn c cs with
      | nil => exact absurd hsp (splitOn_ne_nil c cs)
      | cons q qs => exact ⟨[], q, qs, rfl⟩
    · have hm : sep ∈ cs := by
        simp only [List.mem_cons] at h
        rcases h with h | h
        · exact absurd h.symm hc
        · exact h
      obtain ⟨p, q, qs, hsp⟩ := ih hm
      exact ⟨c :: p, q, qs, splitOn_cons_ne sep c cs p (q :: qs) hc hsp⟩

/-- no '@' at all: the last atom is the whole string -/
theorem lastAtom_of_not_mem (e : Str) (h : '@' ∉ e) : lastAtom e = e := by
  simp [lastAtom, splitOn_of_not_mem '@' e h, List.getLastD]

/-- the last atom is what follows the last '@' -/
theorem lastAtom_append (pre host : Str) (h : '@' ∉ host) : lastAtom (pre ++ '@' :: host) = host := by
  unfold lastAtom
  induction pre with
  | nil =>
    simp only [List.nil_append, splitOn_cons_eq, splitOn_of_not_mem '@' host h]
    simp [List.getLastD]
  | cons c cs ih =>
    by_cases hc : c = '@'
    · subst hc
      simp only [List.cons_append, splitOn_cons_eq]
      rw [getLastD_cons_ne_nil _ _ _ (splitOn_ne_nil _ _)]
      exact ih
    · obtain ⟨p, q, qs, hsp⟩ := splitOn_mem_two '@' (cs ++ '@' :: host) (by simp)
      simp only [List.cons_append]
      rw [splitOn_cons_ne '@' c _ p (q :: qs) hc hsp, getLastD_cons_ne_nil _ _ _ (by simp)]
      rw [hsp, getLastD_cons_ne_nil _ _ _ (by simp)] at ih
      exact ih

theorem exists_last_split (e : Str) (h : '@' ∈ e) :
    ∃ pre host, e = pre ++ '@' :: host ∧ '@' ∉ host := by
  induction e with
  | nil => simp at h
  | cons c cs ih =>
    by_cases hm : '@' ∈ cs
    · obtain ⟨pre, host, he, hh⟩ := ih hm
      exact ⟨c :: pre, host, by simp [he], hh⟩
    · have hc : c = '@' := by
        simp only [List.mem_cons] at h
        rcases h with h | h
        · exact h.symm
        · exact absurd h hm
      subst hc
      exact ⟨[], cs, rfl, hm⟩

/-- every string is either '@'-free (then it is its own last atom) or of the form
    `pre ++ "@" ++ lastAtom`; the last atom never contains '@' -/
theorem lastAtom_spec (e : Str) :
    '@' ∉ lastAtom e ∧ (('@' ∉ e ∧ e = lastAtom e) ∨ ∃ pre, e = pre ++ '@' :: lastAtom e) := by
  by_cases h : '@' ∈ e
  · obtain ⟨pre, host, he, hh⟩ := exists_last_split e h
    have hl : lastAtom e = host := by rw [he]; exact lastAtom_append pre host hh
    rw [hl]; exact ⟨hh, Or.inr ⟨pre, he⟩⟩
  · rw [lastAtom_of_not_mem e h]; exact ⟨h, Or.inl ⟨h, rfl⟩⟩

/-- a suffix "@d" (d '@'-free) pins the last atom to d -/
theorem at_suffix_lastAtom (e d : Str) (hd : '@' ∉ d) (h : ('@' :: d) <:+ e) : lastAtom e = d := by
  obtain ⟨t, rfl⟩ := h
  exact lastAtom_append t d hd

theorem at_suffix_iff (pre host d : Str) (hh : '@' ∉ host) (hd : '@' ∉ d) :
    ('@' :: d) <:+ (pre ++ '@' :: host) ↔ host = d := by
  constructor
  · intro h
    have := at_suffix_lastAtom _ d hd h
    rw [lastAtom_append pre host hh] at this
    exact this
  · rintro rfl; exact ⟨pre, rfl⟩

/-! ## declarative reading of the domain rule -/

/-- the three ways an (already lower-cased) e-mail `e` can match an allowed domain `d` -/
def domMatch (e d : Str) : Prop :=
  ('@' :: d) <:+ e ∨
  (∃ r, d = '.' :: r ∧ d <:+ lastAtom e) ∨
  (∃ r, d = '*' :: '.' :: r ∧ ('.' :: r) <:+ lastAtom e)

theorem domainMatches_iff (e d : Str) : domainMatches e d = true ↔ domMatch e d := by
  unfold domainMatches domMatch
  simp only [Bool.or_eq_true, Bool.and_eq_true, hasSuffix_iff, hasPrefix_dot, hasPrefix_stardot]
  constructor
  · rintro ((h | ⟨⟨r, hr⟩, h⟩) | ⟨⟨r, hr⟩, h⟩)
    · exact Or.inl h
    · exact Or.inr (Or.inl ⟨r, hr, h⟩)
    · refine Or.inr (Or.inr ⟨r, hr, ?_⟩)
      rw [hr] at h; simpa using h
  · rintro (h | ⟨r, hr, h⟩ | ⟨r, hr, h⟩)
    · exact Or.inl (Or.inl h)
    · exact Or.inl (Or.inr ⟨⟨r, hr⟩, h⟩)
    · refine Or.inr ⟨⟨r, hr⟩, ?_⟩
      rw [hr]; simpa using h

theorem isEmailValidWithDomains_iff (e : Str) (ds : List Str) :
    isEmailValidWithDomains e ds = true ↔ ∃ d ∈ ds, domMatch e d := by
  simp [isEmailValidWithDomains, domainMatches_iff]

/-! ## host:port splitting -/

theorem splitLastColon_none (s : Str) (h : ':' ∉ s) : splitLastColon s = none := by
  induction s with
  | nil => rfl
  | cons c cs ih =>
    simp only [List.mem_cons, not_or] at h
    have hc : ¬ c = ':' := fun e => h.1 e.symm
    simp [splitLastColon, ih h.2, hc]

theorem splitLastColon_some (s a b : Str) (h : splitLastColon s = some (a, b)) :
    s = a ++ ':' :: b ∧ ':' ∉ b := by
  induction s generalizing a with
  | nil => simp [splitLastColon] at h
  | cons c cs ih =>
    simp only [splitLastColon] at h
    split at h
    · rename_i a' b' hs
      simp only [Option.some.injEq, Prod.mk.injEq] at h
      obtain ⟨rfl, rfl⟩ := h
      obtain ⟨h1, h2⟩ := ih a' hs
      exact ⟨by simp [h1], h2⟩
    · rename_i hs
      split at h
      · rename_i hc
        simp only [Option.some.injEq, Prod.mk.injEq] at h
        obtain ⟨rfl, rfl⟩ := h
        subst hc
        refine ⟨rfl, ?_⟩
        intro hm
        -- a ':' in the tail would have produced `some`
        have : ∀ t : Str, ':' ∈ t → splitLastColon t ≠ none := by
          intro t
          induction t with
          | nil => simp
          | cons d ds iht =>
            intro hd
            simp only [splitLastColon]
            cases hsp : splitLastColon ds with
            | some ab => simp
            | none =>
              have : ¬ ':' ∈ ds := fun hh => iht hh hsp
              simp only [List.mem_cons] at hd
              rcases hd with hd | hd
              · simp [← hd]
              · exact absurd hd this
        exact this _ hm hs
      · cases h

/-- a plain host (no ':' and not of the form "[…]") is its own hostname and has no port -/
theorem splitHostPort_simple (allowStar : Bool) (h : Str) (h1 : ':' ∉ h)
    (h2 : ¬ (hasPrefix ['['] h = true ∧ hasSuffix [']'] h = true)) :
    splitHostPort allowStar h = (h, []) := by
  unfold splitHostPort
  rw [splitLastColon_none h h1]
  have : (hasPrefix ['['] h && hasSuffix [']'] h) = false := by
    rw [← Bool.not_eq_true, Bool.and_eq_true]; exact h2
  simp [this]

end O2P.Authz
