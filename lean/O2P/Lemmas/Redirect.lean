/-
  O2P.Lemmas.Redirect — helper lemmas for the redirect-validation proofs (C06).
-/
import O2P.Model.Redirect

namespace O2P
namespace Redirect

/-! ## `invalidRel` ⇔ declarative regex semantics -/

/-- Declarative semantics of ``[/\\](?:[\s\v]*|\.{1,2})[/\\]`` (unanchored):
    two separators with, strictly between them, only regex-whitespace, or exactly `.` / `..`. -/
def InvalidRelSpec (s : Str) : Prop :=
  ∃ pre a mid b post, s = pre ++ a :: (mid ++ b :: post) ∧ isSep a = true ∧ isSep b = true ∧
    (mid.all isWs = true ∨ mid = dot ∨ mid = dotdot)

theorem wsThenSep_iff (s : Str) :
    wsThenSep s = true ↔ ∃ mid b post, s = mid ++ b :: post ∧ mid.all isWs = true ∧ isSep b = true := by
  induction s with
  | nil => simp [wsThenSep]
  | cons c cs ih =>
    simp only [wsThenSep, Bool.or_eq_true, Bool.and_eq_true, ih]
    constructor
    · rintro (h | ⟨hw, mid, b, post, rfl, hm, hb⟩)
      · exact ⟨[], c, cs, rfl, by simp, h⟩
      · exact ⟨c :: mid, b, post, rfl, by simp [hw, hm], hb⟩
    · rintro ⟨mid, b, post, heq, hm, hb⟩
      cases mid with
      | nil => simp at heq; left; rw [heq.1]; exact hb
      | cons m ms =>
        simp at heq hm
        right
        refine ⟨by rw [heq.1]; exact hm.1, ms, b, post, heq.2, ?_, hb⟩
        simpa using hm.2

theorem dotsThenSep_iff (s : Str) :
    dotsThenSep s = true ↔ ∃ b post, isSep b = true ∧ (s = dot ++ b :: post ∨ s = dotdot ++ b :: post) := by
  constructor
  · intro h
    unfold dotsThenSep at h
    split at h
    · rename_i c cs
      simp only [Bool.or_eq_true, Bool.and_eq_true, beq_iff_eq] at h
      rcases h with h | ⟨rfl, h⟩
      · exact ⟨c, cs, h, Or.inl rfl⟩
      · split at h
        · rename_i d ds; exact ⟨d, ds, h, Or.inr rfl⟩
        · simp at h
    · simp at h
  · rintro ⟨b, post, hb, rfl | rfl⟩
    · simp [dot, dotsThenSep, hb]
    · have : isSep '.' = false := by decide
      simp [dotdot, dotsThenSep, hb]

theorem afterSep_iff (s : Str) :
    afterSep s = true ↔ ∃ mid b post, s = mid ++ b :: post ∧ isSep b = true ∧
      (mid.all isWs = true ∨ mid = dot ∨ mid = dotdot) := by
  simp only [afterSep, Bool.or_eq_true, wsThenSep_iff, dotsThenSep_iff]
  constructor
  · rintro (⟨mid, b, post, rfl, hm, hb⟩ | ⟨b, post, hb, rfl | rfl⟩)
    · exact ⟨mid, b, post, rfl, hb, Or.inl hm⟩
    · exact ⟨dot, b, post, rfl, hb, Or.inr (Or.inl rfl)⟩
    · exact ⟨dotdot, b, post, rfl, hb, Or.inr (Or.inr rfl)⟩
  · rintro ⟨mid, b, post, rfl, hb, hm | rfl | rfl⟩
    · exact Or.inl ⟨mid, b, post, rfl, hm, hb⟩
    · exact Or.inr ⟨b, post, hb, Or.inl rfl⟩
    · exact Or.inr ⟨b, post, hb, Or.inr rfl⟩

/-- The scanner computes exactly the declarative regex semantics. -/
theorem invalidRel_iff (s : Str) : invalidRel s = true ↔ InvalidRelSpec s := by
  induction s with
  | nil =>
    simp only [invalidRel, InvalidRelSpec]
    constructor
    · intro h; cases h
    · rintro ⟨pre, a, mid, b, post, h, _⟩; simp at h
  | cons c cs ih =>
    simp only [invalidRel, Bool.or_eq_true, Bool.and_eq_true, ih, afterSep_iff]
    constructor
    · rintro (⟨hc, mid, b, post, rfl, hb, hm⟩ | ⟨pre, a, mid, b, post, rfl, ha, hb, hm⟩)
      · exact ⟨[], c, mid, b, post, rfl, hc, hb, hm⟩
      · exact ⟨c :: pre, a, mid, b, post, rfl, ha, hb, hm⟩
    · rintro ⟨pre, a, mid, b, post, heq, ha, hb, hm⟩
      cases pre with
      | nil =>
        simp at heq
        left
        exact ⟨by rw [heq.1]; exact ha, mid, b, post, heq.2, hb, hm⟩
      | cons p ps =>
        simp at heq
        right
        exact ⟨ps, a, mid, b, post, heq.2, ha, hb, hm⟩

theorem invalidRel_false_iff (s : Str) : invalidRel s = false ↔ ¬ InvalidRelSpec s := by
  rw [← invalidRel_iff]; simp

/-- The same with explicit positions `i < j`: `s[i]`, `s[j]` are separators and the substring
    strictly between them is regex-whitespace only, or `.` or `..`. -/
theorem invalidRel_iff_index (s : Str) :
    invalidRel s = true ↔
      ∃ i j, ∃ (hij : i < j) (hj : j < s.length),
        isSep (s[i]'(Nat.lt_trans hij hj)) = true ∧ isSep s[j] = true ∧
        (((s.take j).drop (i + 1)).all isWs = true ∨ (s.take j).drop (i + 1) = dot ∨
          (s.take j).drop (i + 1) = dotdot) := by
  rw [invalidRel_iff]
  constructor
  · rintro ⟨pre, a, mid, b, post, rfl, ha, hb, hm⟩
    refine ⟨pre.length, pre.length + 1 + mid.length, by omega, by simp; omega, ?_, ?_, ?_⟩
    · simpa using ha
    · have : (pre ++ a :: (mid ++ b :: post))[pre.length + 1 + mid.length]'(by simp; omega) = b := by
        rw [List.getElem_append_right (by omega)]
        have h1 : pre.length + 1 + mid.length - pre.length = mid.length + 1 := by omega
        simp only [h1, List.getElem_cons_succ]
        rw [List.getElem_append_right (by omega)]
        simp
      rw [this]; exact hb
    · have : ((pre ++ a :: (mid ++ b :: post)).take (pre.length + 1 + mid.length)).drop (pre.length + 1)
          = mid := by
        have e : pre ++ a :: (mid ++ b :: post) = (pre ++ [a] ++ mid) ++ (b :: post) := by simp
        rw [e, List.take_left' (by simp; omega)]
        have e2 : pre ++ [a] ++ mid = (pre ++ [a]) ++ mid := rfl
        rw [e2, List.drop_left' (by simp)]
      rw [this]; exact hm
  · rintro ⟨i, j, hij, hj, ha, hb, hm⟩
    have hi : i < s.length := Nat.lt_trans hij hj
    refine ⟨s.take i, s[i], (s.take j).drop (i + 1), s[j], s.drop (j + 1), ?_, ha, hb, hm⟩
    have h1 : s = s.take j ++ s.drop j := (List.take_append_drop j s).symm
    have h2 : s.drop j = s[j] :: s.drop (j + 1) := List.drop_eq_getElem_cons hj
    have hij' : i < (s.take j).length := by simp; omega
    have h3 : s.take j = (s.take j).take i ++ (s.take j).drop i := (List.take_append_drop i _).symm
    have h4 : (s.take j).drop i = (s.take j)[i] :: (s.take j).drop (i + 1) :=
      List.drop_eq_getElem_cons hij'
    have h5 : (s.take j).take i = s.take i := by
      rw [List.take_take]; congr 1; omega
    have h6 : (s.take j)[i] = s[i] := by simp
    rw [h4, h5, h6] at h3
    conv => lhs; rw [h1, h2, h3]
    simp

/-! ## Browser side -/

/-- first code point that survives the removal of ASCII tab/newline -/
def firstEff (Y : Str) : Option Char := (Y.filter (fun c => !isTabNl c)).head?

/-- the first effective code point of `Y`, if any, is not `/` or `\` -/
def Safe (Y : Str) : Prop := ∀ b, firstEff Y = some b → isSep b = false

@[simp] theorem firstEff_nil : firstEff [] = none := rfl

theorem firstEff_cons (c : Char) (Y : Str) :
    firstEff (c :: Y) = if isTabNl c = true then firstEff Y else some c := by
  unfold firstEff
  by_cases h : isTabNl c = true <;> simp [h]

theorem firstEff_append (A B : Str) : firstEff (A ++ B) = (firstEff A).or (firstEff B) := by
  simp [firstEff, List.filter_append, List.head?_append]

theorem firstEff_prefix {A B : Str} {b : Char} (h : A <+: B) (hb : firstEff A = some b) :
    firstEff B = some b := by
  obtain ⟨C, rfl⟩ := h
  rw [firstEff_append, hb]; rfl

theorem Safe_prefix {A B : Str} (h : A <+: B) (hs : Safe B) : Safe A :=
  fun b hb => hs b (firstEff_prefix h hb)

theorem firstEff_some_decomp {Y : Str} {b : Char} (h : firstEff Y = some b) :
    ∃ w r, Y = w ++ b :: r ∧ w.all isTabNl = true := by
  induction Y with
  | nil => simp at h
  | cons c cs ih =>
    rw [firstEff_cons] at h
    by_cases hc : isTabNl c = true
    · rw [if_pos hc] at h
      obtain ⟨w, r, rfl, hw⟩ := ih h
      exact ⟨c :: w, r, rfl, by simp [hc, hw]⟩
    · rw [if_neg hc] at h
      cases h
      exact ⟨[], cs, rfl, by simp⟩

theorem isTabNl_isWs {c : Char} (h : isTabNl c = true) : isWs c = true := by
  simp only [isTabNl, isWs, Bool.or_eq_true, beq_iff_eq] at *
  rcases h with (h | h) | h <;> simp [h]

theorem stripTrailing_prefix (s : Str) : stripTrailing s <+: s := by
  unfold stripTrailing
  have h : s.reverse.dropWhile isC0Space <:+ s.reverse := List.dropWhile_suffix _
  have := List.reverse_prefix.mpr h
  simpa using this

theorem twoSeps_scheme_false {t F : Str} (ht : t <+: '/' :: F)
    (hF : ∀ b, F.head? = some b → isSep b = false) :
    (startsWithTwoSeps t || startsWithScheme t) = false := by
  match t, ht with
  | [], _ => rfl
  | [a], ht =>
    obtain ⟨r, hr⟩ := ht
    simp at hr
    obtain ⟨rfl, _⟩ := hr
    simp [startsWithTwoSeps, startsWithScheme]; decide
  | a :: b :: t', ht =>
    obtain ⟨r, hr⟩ := ht
    simp at hr
    obtain ⟨rfl, hr⟩ := hr
    have hb : isSep b = false := hF b (by rw [← hr]; rfl)
    have ha : isAlpha '/' = false := by decide
    simp [startsWithTwoSeps, startsWithScheme, hb, ha]

/-- Core browser lemma: any prefix of `'/' :: Y` with `Y` safe keeps the base origin. -/
theorem browserOffOrigin_false_of_prefix {x Y : Str} (hx : x <+: '/' :: Y) (hY : Safe Y) :
    browserOffOrigin x = false := by
  unfold browserOffOrigin
  apply twoSeps_scheme_false (F := Y.filter (fun c => !isTabNl c))
  · unfold browserPre
    have h1 : stripTrailing (x.dropWhile isC0Space) <+: x :=
      match x, hx with
      | [], _ => by simp [stripTrailing]
      | a :: x', hx => by
        obtain ⟨r, hr⟩ := hx
        simp at hr
        obtain ⟨rfl, _⟩ := hr
        have : isC0Space '/' = false := by decide
        rw [List.dropWhile_cons_of_neg (by simp [this])]
        exact stripTrailing_prefix _
    have h2 := (h1.trans hx).filter (fun c => !isTabNl c)
    have h3 : isTabNl '/' = false := by decide
    simpa [List.filter_cons, h3] using h2
  · exact hY

theorem browserOffOrigin_false_of_safe {Y : Str} (hY : Safe Y) :
    browserOffOrigin ('/' :: Y) = false :=
  browserOffOrigin_false_of_prefix (List.prefix_refl _) hY

/-- If the regex does not match `'/' :: Y` then the first effective code point of `Y` is not a
    separator. -/
theorem Safe_of_invalidRel_false {Y : Str} (h : invalidRel ('/' :: Y) = false) : Safe Y := by
  intro b hb
  obtain ⟨w, r, rfl, hw⟩ := firstEff_some_decomp hb
  cases hsep : isSep b with
  | false => rfl
  | true =>
    exfalso
    rw [invalidRel_false_iff] at h
    apply h
    refine ⟨[], '/', w, b, r, rfl, by decide, hsep, Or.inl ?_⟩
    rw [List.all_eq_true] at hw ⊢
    exact fun c hc => isTabNl_isWs (hw c hc)

/-! ## `hexEscapeNonASCII` and header sanitisation preserve safety -/

theorem hexEscape_cons (c : Char) (Y : Str) :
    hexEscapeNonASCII (c :: Y) = hexEscapeChar c ++ hexEscapeNonASCII Y := by
  simp [hexEscapeNonASCII]

theorem hexEscape_slash_cons (Y : Str) :
    hexEscapeNonASCII ('/' :: Y) = '/' :: hexEscapeNonASCII Y := by
  rw [hexEscape_cons]; rfl

theorem firstEff_hexEscape {Y : Str} {b : Char} (h : firstEff (hexEscapeNonASCII Y) = some b) :
    b = '%' ∨ firstEff Y = some b := by
  induction Y with
  | nil => simp [hexEscapeNonASCII] at h
  | cons c cs ih =>
    rw [hexEscape_cons] at h
    unfold hexEscapeChar at h
    by_cases hc : 0x80 ≤ c.toNat
    · rw [if_pos hc] at h
      have : isTabNl '%' = false := by decide
      simp [firstEff_cons, this] at h
      exact Or.inl h.symm
    · rw [if_neg hc] at h
      simp only [List.singleton_append] at h
      rw [firstEff_cons] at h ⊢
      by_cases ht : isTabNl c = true
      · rw [if_pos ht] at h ⊢; exact ih h
      · rw [if_neg ht] at h ⊢; exact Or.inr h

theorem Safe_hexEscape {Y : Str} (h : Safe Y) : Safe (hexEscapeNonASCII Y) := by
  intro b hb
  rcases firstEff_hexEscape hb with rfl | hb'
  · decide
  · exact h b hb'

/-- `headerNewlineToSpace` as a per-byte map -/
def nlToSpace (c : Char) : Char := if c == '\n' || c == '\r' then ' ' else c

theorem firstEff_nlToSpace {Y : Str} {b : Char} (h : firstEff (Y.map nlToSpace) = some b) :
    b = ' ' ∨ firstEff Y = some b := by
  induction Y with
  | nil => simp at h
  | cons c cs ih =>
    simp only [List.map_cons] at h
    rw [firstEff_cons] at h
    by_cases hc : (c == '\n' || c == '\r') = true
    · have h1 : nlToSpace c = ' ' := by simp [nlToSpace, hc]
      have h2 : isTabNl ' ' = false := by decide
      rw [h1] at h
      simp [h2] at h
      exact Or.inl h.symm
    · have h1 : nlToSpace c = c := by simp [nlToSpace, hc]
      rw [h1] at h
      rw [firstEff_cons]
      by_cases ht : isTabNl c = true
      · rw [if_pos ht] at h ⊢; exact ih h
      · rw [if_neg ht] at h ⊢; exact Or.inr h

theorem Safe_nlToSpace {Y : Str} (h : Safe Y) : Safe (Y.map nlToSpace) := by
  intro b hb
  rcases firstEff_nlToSpace hb with rfl | hb'
  · decide
  · exact h b hb'

theorem wireHeaderValue_prefix (Y : Str) :
    wireHeaderValue ('/' :: Y) <+: '/' :: Y.map nlToSpace := by
  unfold wireHeaderValue
  have h0 : (List.map (fun c => if (c == '\n' || c == '\r') = true then ' ' else c) ('/' :: Y))
      = '/' :: Y.map nlToSpace := by
    simp only [List.map_cons]
    congr 1
  simp only [h0]
  have h1 : isHdrSpace '/' = false := by decide
  rw [List.dropWhile_cons_of_neg (by simp [h1])]
  have h : ('/' :: Y.map nlToSpace).reverse.dropWhile isHdrSpace <:+ ('/' :: Y.map nlToSpace).reverse :=
    List.dropWhile_suffix _
  have := List.reverse_prefix.mpr h
  simpa using this

/-- what the browser makes of the on-the-wire header value -/
theorem browserOffOrigin_wire_false {Y : Str} (hY : Safe Y) :
    browserOffOrigin (wireHeaderValue ('/' :: Y)) = false :=
  browserOffOrigin_false_of_prefix (wireHeaderValue_prefix Y) (Safe_nlToSpace hY)

theorem Safe_append_of_slash {A B C : Str} (h : Safe (A ++ '/' :: B)) : Safe (A ++ C) := by
  intro b hb
  rw [firstEff_append] at hb
  cases hA : firstEff A with
  | none =>
    exfalso
    have h3 : isTabNl '/' = false := by decide
    have := h '/' (by rw [firstEff_append, hA]; simp [firstEff_cons, h3])
    revert this; decide
  | some a =>
    rw [hA] at hb
    simp at hb
    subst hb
    exact h a (by rw [firstEff_append, hA]; rfl)

/-! ## `splitOn` structure -/

theorem splitOn_cons_cons {sep : Char} {s a b : Str} {rest : List Str}
    (h : splitOn sep s = a :: b :: rest) : ∃ t, s = a ++ sep :: t ∧ splitOn sep t = b :: rest := by
  induction s generalizing a with
  | nil => simp [splitOn] at h
  | cons c cs ih =>
    unfold splitOn at h
    split at h
    · rename_i hc
      simp at h
      exact ⟨cs, by simp [← h.1, hc], h.2⟩
    · split at h
      · simp at h
      · rename_i p ps hsp
        simp at h
        obtain ⟨rfl, rfl⟩ := h
        obtain ⟨t, rfl, ht⟩ := ih hsp
        exact ⟨t, by simp, ht⟩

/-- every non-last piece of `splitOn sep s` sits between two separators of `sep :: s` -/
theorem splitOn_mem_between {sep : Char} {s m : Str} {l1 l2 : List Str}
    (h : splitOn sep s = l1 ++ m :: l2) (hl2 : l2 ≠ []) :
    ∃ pre post, sep :: s = pre ++ sep :: (m ++ sep :: post) := by
  induction l1 generalizing s with
  | nil =>
    cases l2 with
    | nil => exact absurd rfl hl2
    | cons b r =>
      obtain ⟨t, rfl, _⟩ := splitOn_cons_cons (by simpa using h)
      exact ⟨[], t, rfl⟩
  | cons a l1 ih =>
    cases hl : l1 ++ m :: l2 with
    | nil => simp at hl
    | cons b r =>
      rw [List.cons_append, hl] at h
      obtain ⟨t, rfl, ht⟩ := splitOn_cons_cons h
      rw [← hl] at ht
      obtain ⟨pre, post, hpp⟩ := ih ht
      exact ⟨sep :: a ++ pre, post, by simp [hpp]⟩

theorem joinWith_concat (sep : Char) (i : List Str) (x : Str) (hi : i ≠ []) :
    joinWith sep (i ++ [x]) = joinWith sep i ++ sep :: x := by
  induction i with
  | nil => exact absurd rfl hi
  | cons a i ih =>
    cases i with
    | nil => simp [joinWith]
    | cons b i =>
      have := ih (by simp)
      simp only [List.cons_append] at this ⊢
      simp [joinWith, this]

theorem joinWith_cons (sep : Char) (a : Str) (ps : List Str) :
    ∃ R, joinWith sep (a :: ps) = a ++ R := by
  cases ps with
  | nil => exact ⟨[], by simp [joinWith]⟩
  | cons b ps => exact ⟨sep :: joinWith sep (b :: ps), by simp [joinWith]⟩

/-! ## `path.Clean` on rooted paths -/

/-- a real path element: not empty, not `.`, not `..` -/
def Real (seg : Str) : Prop := seg ≠ [] ∧ seg ≠ dot ∧ seg ≠ dotdot

theorem cleanStep_real {seg : Str} (h : Real seg) (r : Bool) (st : Nat × List Str) :
    cleanStep r st seg = (st.1, seg :: st.2) := by
  obtain ⟨h1, h2, h3⟩ := h
  simp [cleanStep, h1, h2, h3]

theorem foldl_cleanStep_real (L : List Str) (hL : ∀ m ∈ L, Real m) (r : Bool) (st : Nat × List Str) :
    L.foldl (cleanStep r) st = (st.1, L.reverse ++ st.2) := by
  induction L generalizing st with
  | nil => simp
  | cons a L ih =>
    simp only [List.foldl_cons]
    rw [cleanStep_real (hL a (by simp)), ih (fun m hm => hL m (by simp [hm]))]
    simp

/-- closed form of `path.Clean "/body"` when all elements but the last are real -/
theorem cleanRooted_eq {body : Str} {init : List Str} {last : Str}
    (hs : splitOn '/' body = init ++ [last]) (hinit : ∀ m ∈ init, Real m) :
    cleanRooted body = '/' :: joinWith '/'
      (if last = [] ∨ last = dot then init
       else if last = dotdot then init.dropLast else init ++ [last]) := by
  unfold cleanRooted
  rw [hs, List.foldl_append, foldl_cleanStep_real init hinit]
  simp only [List.foldl_cons, List.foldl_nil, List.append_nil]
  by_cases h1 : last = [] ∨ last = dot
  · rw [if_pos h1]
    have : cleanStep true (0, init.reverse) last = (0, init.reverse) := by
      rcases h1 with rfl | rfl <;> simp [cleanStep]
    rw [this]; simp
  · rw [if_neg h1]
    have h1' : (last == [] || last == dot) = false := by
      simp only [not_or] at h1
      simp [h1.1, h1.2]
    by_cases h2 : last = dotdot
    · rw [if_pos h2]
      subst h2
      rcases List.eq_nil_or_concat init with rfl | ⟨i, x, rfl⟩
      · simp [cleanStep, dotdot, dot]
      · simp [cleanStep, dotdot, dot]
    · rw [if_neg h2]
      simp only [not_or] at h1
      rw [cleanStep_real ⟨h1.1, h1.2, h2⟩]
      simp

/-- all non-last path elements are real when the regex does not match -/
theorem nonlast_real {body q : Str} (hinv : invalidRel ('/' :: body ++ q) = false)
    {init : List Str} {last : Str} (hs : splitOn '/' body = init ++ [last]) :
    ∀ m ∈ init, Real m := by
  intro m hm
  obtain ⟨l1, l2, rfl⟩ := List.append_of_mem hm
  have hs' : splitOn '/' body = l1 ++ m :: (l2 ++ [last]) := by simpa using hs
  obtain ⟨pre, post, hpp⟩ := splitOn_mem_between hs' (by simp)
  rw [invalidRel_false_iff] at hinv
  have key : (m.all isWs = true ∨ m = dot ∨ m = dotdot) → False := fun hm' =>
    hinv ⟨pre, '/', m, '/', post ++ q, by
      rw [show '/' :: body ++ q = ('/' :: body) ++ q from rfl, hpp]; simp,
      by decide, by decide, hm'⟩
  refine ⟨?_, ?_, ?_⟩
  · rintro rfl; exact key (Or.inl rfl)
  · rintro rfl; exact key (Or.inr (Or.inl rfl))
  · rintro rfl; exact key (Or.inr (Or.inr rfl))

theorem goClean_rooted (body : Str) : goClean ('/' :: body) = cleanRooted body := rfl

theorem cleanKeepSlash_cases (p : Str) :
    cleanKeepSlash p = goClean p ∨ cleanKeepSlash p = goClean p ++ ['/'] := by
  unfold cleanKeepSlash
  simp only
  split
  · exact Or.inr rfl
  · exact Or.inl rfl

theorem cleanKeepSlash_of_root {p : Str} (h : goClean p = ['/']) : cleanKeepSlash p = ['/'] := by
  unfold cleanKeepSlash
  simp [h, hasSuffix]

theorem cleanKeepSlash_of_fix {p : Str} (h : goClean p = p) : cleanKeepSlash p = p := by
  unfold cleanKeepSlash
  simp [h]

/-- Shape of the rewritten Location (before `hexEscapeNonASCII`) for an accepted relative
    redirect `'/' :: body ++ q` whose path part is `'/' :: body`. -/
theorem cleanKeepSlash_shape {body q : Str} (hinv : invalidRel ('/' :: body ++ q) = false)
    (hq : Safe q) : ∃ Y, cleanKeepSlash ('/' :: body) ++ q = '/' :: Y ∧ Safe Y := by
  have hS : Safe (body ++ q) := Safe_of_invalidRel_false hinv
  rcases List.eq_nil_or_concat (splitOn '/' body) with h | ⟨init, last, hs⟩
  · exact absurd h (splitOn_ne_nil _ _)
  rw [List.concat_eq_append] at hs
  have hreal := nonlast_real hinv hs
  have hclean := cleanRooted_eq hs hreal
  rw [← goClean_rooted] at hclean
  -- the three possible outcomes
  have root : goClean ('/' :: body) = ['/'] → ∃ Y, cleanKeepSlash ('/' :: body) ++ q = '/' :: Y ∧ Safe Y :=
    fun h => ⟨q, by rw [cleanKeepSlash_of_root h]; rfl, hq⟩
  have headed : ∀ seg1 t ps, body = seg1 ++ '/' :: t →
      goClean ('/' :: body) = '/' :: joinWith '/' (seg1 :: ps) →
      ∃ Y, cleanKeepSlash ('/' :: body) ++ q = '/' :: Y ∧ Safe Y := by
    intro seg1 t ps hb hc
    obtain ⟨R, hR⟩ := joinWith_cons '/' seg1 ps
    rw [hR] at hc
    have hS' : Safe (seg1 ++ '/' :: (t ++ q)) := by simpa [hb] using hS
    rcases cleanKeepSlash_cases ('/' :: body) with h | h
    · exact ⟨seg1 ++ (R ++ q), by rw [h, hc]; simp, Safe_append_of_slash hS'⟩
    · exact ⟨seg1 ++ (R ++ '/' :: q), by rw [h, hc]; simp, Safe_append_of_slash hS'⟩
  cases init with
  | nil =>
    simp only [List.nil_append] at hs
    have hbody : body = last := by
      have := joinWith_splitOn '/' body
      rw [hs] at this; simpa [joinWith] using this.symm
    by_cases h1 : last = [] ∨ last = dot
    · rw [if_pos h1] at hclean; exact root (by simpa [joinWith] using hclean)
    · rw [if_neg h1] at hclean
      by_cases h2 : last = dotdot
      · rw [if_pos h2] at hclean; exact root (by simpa [joinWith] using hclean)
      · rw [if_neg h2] at hclean
        have hfix : goClean ('/' :: body) = '/' :: body := by
          rw [hclean]; simp [joinWith, hbody]
        exact ⟨body ++ q, by rw [cleanKeepSlash_of_fix hfix]; rfl, hS⟩
  | cons seg1 mid =>
    have hb : ∃ t, body = seg1 ++ '/' :: t := by
      cases hml : mid ++ [last] with
      | nil => simp at hml
      | cons b r =>
        rw [List.cons_append, hml] at hs
        obtain ⟨t, ht, _⟩ := splitOn_cons_cons hs
        exact ⟨t, ht⟩
    obtain ⟨t, hb⟩ := hb
    by_cases h1 : last = [] ∨ last = dot
    · rw [if_pos h1] at hclean; exact headed seg1 t mid hb hclean
    · rw [if_neg h1] at hclean
      by_cases h2 : last = dotdot
      · rw [if_pos h2] at hclean
        cases mid with
        | nil => exact root (by simpa [joinWith] using hclean)
        | cons m ms =>
          exact headed seg1 t ((m :: ms).dropLast) hb (by simpa using hclean)
      · rw [if_neg h2] at hclean
        exact headed seg1 t (mid ++ [last]) hb (by simpa using hclean)

/-! ## Landing: when `http.Redirect` leaves the target untouched -/

theorem hexEscape_id {s : Str} (h : ∀ c ∈ s, c.toNat < 0x80) : hexEscapeNonASCII s = s := by
  induction s with
  | nil => rfl
  | cons c cs ih =>
    rw [hexEscape_cons, ih (fun d hd => h d (by simp [hd]))]
    have : ¬ 0x80 ≤ c.toNat := by have := h c (by simp); omega
    simp [hexEscapeChar, this]

/-- last `/`-separated element -/
def lastSeg (p : Str) : Str := (splitOn '/' p).getLast?.getD []

theorem lastSeg_slash_cons (body : Str) : lastSeg ('/' :: body) = lastSeg body := by
  unfold lastSeg
  rw [splitOn_cons_eq]
  cases h : splitOn '/' body with
  | nil => exact absurd h (splitOn_ne_nil _ _)
  | cons a r => simp [List.getLast?_cons_cons]

theorem hasSuffix_slash_concat (W : Str) (z : Char) : hasSuffix ['/'] (W ++ [z]) = decide (z = '/') := by
  unfold hasSuffix
  by_cases hz : z = '/'
  · subst hz
    simp [List.isSuffixOf_iff_suffix]
  · have : ¬ (['/'] <:+ W ++ [z]) := by
      rintro ⟨t, ht⟩
      have := congrArg List.getLast? ht
      simp at this
      exact hz this.symm
    simp [hz]
    cases h : List.isSuffixOf ['/'] (W ++ [z]) with
    | false => rfl
    | true => exact absurd (List.isSuffixOf_iff_suffix.mp h) this

theorem joinWith_real_no_trailing_slash {init : List Str} (hne : init ≠ [])
    (hreal : ∀ m ∈ init, Real m) (hsep : ∀ m ∈ init, '/' ∉ m) :
    hasSuffix ['/'] ('/' :: joinWith '/' init) = false := by
  rcases List.eq_nil_or_concat init with rfl | ⟨i, x, rfl⟩
  · exact absurd rfl hne
  rw [List.concat_eq_append] at *
  have hx : Real x := hreal x (by simp)
  have hxs : '/' ∉ x := hsep x (by simp)
  rcases List.eq_nil_or_concat x with rfl | ⟨x', z, rfl⟩
  · exact absurd rfl hx.1
  rw [List.concat_eq_append] at *
  have hz : z ≠ '/' := by
    intro h; apply hxs; simp [h]
  have : ∃ W, '/' :: joinWith '/' (i ++ [x' ++ [z]]) = W ++ [z] := by
    by_cases hi : i = []
    · subst hi; exact ⟨'/' :: x', by simp [joinWith]⟩
    · rw [joinWith_concat _ _ _ hi]
      exact ⟨'/' :: (joinWith '/' i ++ '/' :: x'), by simp⟩
  obtain ⟨W, hW⟩ := this
  rw [hW, hasSuffix_slash_concat]
  simp [hz]

/-- `path.Clean` + trailing-slash restoration is the identity on `"/" ++ body` when all
    non-last elements are real and the last one is not `.` / `..`. -/
theorem cleanKeepSlash_id {body : Str} {init : List Str} {last : Str}
    (hs : splitOn '/' body = init ++ [last]) (hinit : ∀ m ∈ init, Real m)
    (h1 : last ≠ dot) (h2 : last ≠ dotdot) :
    cleanKeepSlash ('/' :: body) = '/' :: body := by
  have hclean := cleanRooted_eq hs hinit
  rw [← goClean_rooted] at hclean
  have hbody : body = joinWith '/' (init ++ [last]) := by
    rw [← hs, joinWith_splitOn]
  by_cases h0 : last = []
  · subst h0
    rw [if_pos (Or.inl rfl)] at hclean
    by_cases hi : init = []
    · subst hi
      have : body = [] := by simpa [joinWith] using hbody
      subst this
      exact cleanKeepSlash_of_fix (by simpa [joinWith] using hclean)
    · rw [joinWith_concat _ _ _ hi] at hbody
      have hsep : ∀ m ∈ init, '/' ∉ m := fun m hm =>
        splitOn_no_sep '/' body m (by rw [hs]; simp [hm])
      have hns := joinWith_real_no_trailing_slash hi hinit hsep
      unfold cleanKeepSlash
      simp only
      rw [hclean, hns]
      have : hasSuffix ['/'] ('/' :: body) = true := by
        rw [hbody]
        have := hasSuffix_slash_concat ('/' :: joinWith '/' init) '/'
        simpa using this
      rw [this]
      simp [hbody]
  · have : ¬ (last = [] ∨ last = dot) := by simp [h0, h1]
    rw [if_neg this, if_neg h2] at hclean
    exact cleanKeepSlash_of_fix (by rw [hclean, hbody])

/-! ## `strings.Contains` -/

theorem containsSub_of_decomp (sub pre post : Str) :
    containsSub sub (pre ++ (sub ++ post)) = true := by
  induction pre with
  | nil =>
    simp only [List.nil_append]
    cases h : sub ++ post with
    | nil =>
      have : sub = [] := (List.append_eq_nil_iff.mp h).1
      simp [containsSub, this]
    | cons c cs =>
      unfold containsSub
      rw [← h]
      simp [hasPrefix, List.isPrefixOf_iff_prefix]
  | cons c pre ih =>
    simp only [List.cons_append]
    unfold containsSub
    rw [ih]; simp

theorem dropWhile_none {l : Str} {f : Char → Bool} (h : ∀ c ∈ l, f c = false) :
    l.dropWhile f = l := by
  cases l with
  | nil => rfl
  | cons c cs => rw [List.dropWhile_cons_of_neg (by simp [h c (by simp)])]

/-- a value without any header-space byte goes on the wire unchanged -/
theorem wireHeaderValue_id {p : Str} (h : ∀ c ∈ p, isHdrSpace c = false) :
    wireHeaderValue p = p := by
  unfold wireHeaderValue
  have hmap : p.map (fun c => if (c == '\n' || c == '\r') = true then ' ' else c) = p := by
    conv => rhs; rw [← List.map_id p]
    apply List.map_congr_left
    intro c hc
    have := h c hc
    simp only [isHdrSpace, Bool.or_eq_false_iff] at this
    simp [this.1.2, this.2]
  simp only [hmap]
  rw [dropWhile_none h, dropWhile_none (fun c hc => h c (by simpa using hc))]
  simp

theorem isHdrSpace_le {c : Char} (h : isHdrSpace c = true) : c.toNat ≤ 0x20 := by
  simp only [isHdrSpace, Bool.or_eq_true, beq_iff_eq] at h
  rcases h with ((h | h) | h) | h <;> subst h <;> decide

/-! ## `strings.LastIndexByte` -/

theorem lastIndexOf_go_not_mem (c : Char) (b : Str) (h : c ∉ b) (i : Nat) (best : Option Nat) :
    lastIndexOf.go c i best b = best := by
  induction b generalizing i best with
  | nil => rfl
  | cons d ds ih =>
    simp at h
    unfold lastIndexOf.go
    rw [if_neg (fun hd => h.1 hd.symm)]
    exact ih h.2 _ _

theorem lastIndexOf_go_append (c : Char) (a b : Str) (h : c ∉ b) (i : Nat) (best : Option Nat) :
    lastIndexOf.go c i best (a ++ c :: b) = some (i + a.length) := by
  induction a generalizing i best with
  | nil =>
    simp only [List.nil_append, List.length_nil, Nat.add_zero]
    unfold lastIndexOf.go
    rw [if_pos rfl]
    exact lastIndexOf_go_not_mem c b h _ _
  | cons x a ih =>
    simp only [List.cons_append, List.length_cons]
    unfold lastIndexOf.go
    rw [ih]
    congr 1; omega

theorem lastIndexOf_not_mem (c : Char) (b : Str) (h : c ∉ b) : lastIndexOf c b = none :=
  lastIndexOf_go_not_mem c b h 0 none

theorem lastIndexOf_append (c : Char) (a b : Str) (h : c ∉ b) :
    lastIndexOf c (a ++ c :: b) = some a.length := by
  unfold lastIndexOf
  rw [lastIndexOf_go_append c a b h]; simp

theorem isWs_le {c : Char} (h : isWs c = true) : c.toNat ≤ 0x20 := by
  simp only [isWs, Bool.or_eq_true, beq_iff_eq] at h
  rcases h with ((((h | h) | h) | h) | h) | h <;> subst h <;> decide

end Redirect
end O2P
