/-
  O2P.Lemmas.Decimal — facts about `natToStr`, `intToStr`, `digitsToNat`, `atoi` (O2P.Basic).
-/
import O2P.Basic

namespace O2P

theorem isDigit_iff {c : Char} : isDigit c = true ↔ 48 ≤ c.toNat ∧ c.toNat ≤ 57 := by
  simp only [isDigit, Bool.and_eq_true, decide_eq_true_eq, Char.le_def, UInt32.le_iff_toNat_le]
  exact Iff.rfl

def AllDigits (s : Str) : Prop := ∀ c ∈ s, isDigit c = true

theorem allDigits_iff_all {s : Str} : AllDigits s ↔ s.all isDigit = true := by
  simp [AllDigits, List.all_eq_true]

theorem AllDigits.append {a b : Str} (ha : AllDigits a) (hb : AllDigits b) : AllDigits (a ++ b) := by
  intro c hc; rcases List.mem_append.mp hc with h | h
  · exact ha c h
  · exact hb c h

theorem AllDigits.left {a b : Str} (h : AllDigits (a ++ b)) : AllDigits a :=
  fun c hc => h c (List.mem_append.mpr (.inl hc))
theorem AllDigits.right {a b : Str} (h : AllDigits (a ++ b)) : AllDigits b :=
  fun c hc => h c (List.mem_append.mpr (.inr hc))

theorem natToStr_eq (n : Nat) : natToStr n = Nat.toDigits 10 n := by
  simp [natToStr]

theorem natToStr_ne_nil (n : Nat) : natToStr n ≠ [] := by
  rw [natToStr_eq]; exact Nat.toDigits_ne_nil

theorem natToStr_allDigits (n : Nat) : AllDigits (natToStr n) := by
  intro c hc
  rw [natToStr_eq] at hc
  have := Nat.isDigit_of_mem_toDigits (by decide) (by decide) hc
  rw [Char.isDigit_iff_toNat] at this
  rw [isDigit_iff]
  exact this

theorem digitsToNat_eq_aux (s : Str) (init : Nat) :
    s.foldl (fun acc c => acc * 10 + (c.toNat - 48)) init = Nat.ofDigitChars 10 s init := by
  induction s generalizing init with
  | nil => simp [Nat.ofDigitChars]
  | cons c cs ih =>
    simp only [List.foldl_cons, Nat.ofDigitChars_cons, ih]
    congr 1
    have : '0'.toNat = 48 := by decide
    rw [this]; omega

theorem digitsToNat_eq (s : Str) : digitsToNat s = Nat.ofDigitChars 10 s 0 :=
  digitsToNat_eq_aux s 0

theorem digitsToNat_natToStr (n : Nat) : digitsToNat (natToStr n) = n := by
  rw [digitsToNat_eq, natToStr_eq, Nat.ofDigitChars_ten_toDigits]

theorem digitsToNat_append (a b : Str) :
    digitsToNat (a ++ b) = digitsToNat a * 10 ^ b.length + digitsToNat b := by
  rw [digitsToNat_eq, digitsToNat_eq, digitsToNat_eq, Nat.ofDigitChars_append,
    Nat.ofDigitChars_eq_ofDigitChars_zero, Nat.mul_comm]

theorem digitsToNat_nil : digitsToNat [] = 0 := rfl

theorem digitsToNat_cons (c : Char) (s : Str) :
    digitsToNat (c :: s) = (c.toNat - 48) * 10 ^ s.length + digitsToNat s := by
  have := digitsToNat_append [c] s
  simpa [digitsToNat] using this

theorem digitsToNat_lt {s : Str} (h : AllDigits s) : digitsToNat s < 10 ^ s.length := by
  induction s with
  | nil => simp [digitsToNat]
  | cons c cs ih =>
    have hc := (isDigit_iff.mp (h c (by simp)))
    have := ih (fun d hd => h d (by simp [hd]))
    rw [digitsToNat_cons, List.length_cons, Nat.pow_succ]
    have h9 : (c.toNat - 48) ≤ 9 := by omega
    have := Nat.mul_le_mul_right (10 ^ cs.length) h9
    omega

/-- an all-digit string with value 0 consists of `'0'` only -/
theorem digitsToNat_eq_zero {s : Str} (h : AllDigits s) (hz : digitsToNat s = 0) :
    s = List.replicate s.length '0' := by
  induction s with
  | nil => rfl
  | cons c cs ih =>
    have hc := (isDigit_iff.mp (h c (by simp)))
    rw [digitsToNat_cons] at hz
    have hp : 0 < 10 ^ cs.length := Nat.pow_pos (by decide)
    have h1 : (c.toNat - 48) * 10 ^ cs.length = 0 := by omega
    have h2 : digitsToNat cs = 0 := by omega
    have h3 : c.toNat - 48 = 0 := by
      rcases Nat.mul_eq_zero.mp h1 with h | h
      · exact h
      · omega
    have h4 : c = '0' := by
      apply Char.toNat_inj.mp
      have : '0'.toNat = 48 := by decide
      omega
    rw [List.length_cons, List.replicate_succ, h4, ← ih (fun d hd => h d (by simp [hd])) h2]

theorem digitsToNat_replicate_zero (k : Nat) : digitsToNat (List.replicate k '0') = 0 := by
  rw [digitsToNat_eq, Nat.ofDigitChars_replicate_zero]; simp

theorem allDigits_replicate_zero (k : Nat) : AllDigits (List.replicate k '0') := by
  intro c hc
  rw [List.mem_replicate] at hc
  rw [hc.2]; decide

theorem natToStr_lt (n : Nat) : n < 10 ^ (natToStr n).length := by
  have hpos : 0 < (natToStr n).length := List.length_pos_iff.mpr (natToStr_ne_nil n)
  have := (Nat.length_toDigits_le_iff (b := 10) (n := n) (k := (natToStr n).length) (by decide) hpos)
  rw [natToStr_eq] at *
  exact this.mp (Nat.le_refl _)

/-- no leading zeros: an `L`-digit rendering denotes a number ≥ 10^(L-1) (for n > 0) -/
theorem natToStr_ge (n : Nat) (hn : 0 < n) : 10 ^ ((natToStr n).length - 1) ≤ n := by
  have hpos : 0 < (natToStr n).length := List.length_pos_iff.mpr (natToStr_ne_nil n)
  by_cases h1 : (natToStr n).length = 1
  · rw [h1]; simp; omega
  · have hk : 0 < (natToStr n).length - 1 := by omega
    have := (Nat.length_toDigits_le_iff (b := 10) (n := n) (k := (natToStr n).length - 1) (by decide) hk)
    rw [natToStr_eq] at *
    apply Nat.le_of_not_lt
    intro hlt
    have := this.mpr hlt
    omega

/-! ### atoi -/

def atoiBody (neg : Bool) (ds : Str) : Option Int :=
  if ds.isEmpty || !ds.all isDigit then none
  else
    let n := digitsToNat ds
    if neg then (if n ≤ 9223372036854775808 then some (-(n : Int)) else none)
    else (if n ≤ 9223372036854775807 then some (n : Int) else none)

theorem atoi_minus (r : Str) : atoi ('-' :: r) = atoiBody true r := by
  simp [atoi, atoiBody]
theorem atoi_plus (r : Str) : atoi ('+' :: r) = atoiBody false r := by
  simp [atoi, atoiBody]
theorem atoi_other (s : Str) (h1 : ∀ r, s ≠ '-' :: r) (h2 : ∀ r, s ≠ '+' :: r) :
    atoi s = atoiBody false s := by
  unfold atoi atoiBody
  split
  rename_i heq
  split at heq
  · exact absurd rfl (h1 _)
  · exact absurd rfl (h2 _)
  · simp only [Prod.mk.injEq] at heq
    obtain ⟨rfl, rfl⟩ := heq
    rfl

theorem atoiBody_some {neg : Bool} {ds : Str} {t : Int} (h : atoiBody neg ds = some t) :
    ds ≠ [] ∧ AllDigits ds ∧ t = (if neg then -(digitsToNat ds : Int) else (digitsToNat ds : Int))
      ∧ -9223372036854775808 ≤ t ∧ t ≤ 9223372036854775807 := by
  unfold atoiBody at h
  split at h
  · simp at h
  · rename_i hc
    simp only [Bool.or_eq_true, Bool.not_eq_true', not_or, Bool.not_eq_false] at hc
    have hne : ds ≠ [] := by intro h0; simp [h0] at hc
    have hd : AllDigits ds := allDigits_iff_all.mpr hc.2
    cases neg
    · simp only [Bool.false_eq_true, if_false] at h
      split at h
      · simp only [Option.some.injEq] at h; subst h
        refine ⟨hne, hd, by simp, by omega, by omega⟩
      · simp at h
    · simp only [if_true] at h
      split at h
      · simp only [Option.some.injEq] at h; subst h
        refine ⟨hne, hd, by simp, by omega, by omega⟩
      · simp at h

theorem atoi_some_cases {s : Str} {t : Int} (h : atoi s = some t) :
    (s ≠ [] ∧ AllDigits s ∧ t = (digitsToNat s : Int))
    ∨ (∃ r, s = '+' :: r ∧ r ≠ [] ∧ AllDigits r ∧ t = (digitsToNat r : Int))
    ∨ (∃ r, s = '-' :: r ∧ r ≠ [] ∧ AllDigits r ∧ t = -(digitsToNat r : Int)) := by
  by_cases h1 : ∃ r, s = '-' :: r
  · obtain ⟨r, rfl⟩ := h1
    rw [atoi_minus] at h
    obtain ⟨a, b, c, _⟩ := atoiBody_some h
    exact .inr (.inr ⟨r, rfl, a, b, by simpa using c⟩)
  · by_cases h2 : ∃ r, s = '+' :: r
    · obtain ⟨r, rfl⟩ := h2
      rw [atoi_plus] at h
      obtain ⟨a, b, c, _⟩ := atoiBody_some h
      exact .inr (.inl ⟨r, rfl, a, b, by simpa using c⟩)
    · rw [atoi_other s (fun r hr => h1 ⟨r, hr⟩) (fun r hr => h2 ⟨r, hr⟩)] at h
      obtain ⟨a, b, c, _⟩ := atoiBody_some h
      exact .inl ⟨a, b, by simpa using c⟩

theorem atoi_range {s : Str} {t : Int} (h : atoi s = some t) :
    -9223372036854775808 ≤ t ∧ t ≤ 9223372036854775807 := by
  by_cases h1 : ∃ r, s = '-' :: r
  · obtain ⟨r, rfl⟩ := h1
    rw [atoi_minus] at h
    exact (atoiBody_some h).2.2.2
  · by_cases h2 : ∃ r, s = '+' :: r
    · obtain ⟨r, rfl⟩ := h2
      rw [atoi_plus] at h
      exact (atoiBody_some h).2.2.2
    · rw [atoi_other s (fun r hr => h1 ⟨r, hr⟩) (fun r hr => h2 ⟨r, hr⟩)] at h
      exact (atoiBody_some h).2.2.2

theorem atoi_of_digits {s : Str} (hne : s ≠ []) (hd : AllDigits s) :
    atoi s = if digitsToNat s ≤ 9223372036854775807 then some (digitsToNat s : Int) else none := by
  cases s with
  | nil => exact absurd rfl hne
  | cons c r =>
    have hc := isDigit_iff.mp (hd c (by simp))
    have hm : c ≠ '-' := by intro h; subst h; revert hc; decide
    have hp : c ≠ '+' := by intro h; subst h; revert hc; decide
    have hall : (c :: r).all isDigit = true := allDigits_iff_all.mp hd
    rw [atoi_other _ (by intro r' h; exact hm (List.cons.inj h).1) (by intro r' h; exact hp (List.cons.inj h).1)]
    unfold atoiBody
    simp [hall]

theorem atoi_natToStr (n : Nat) (h : n ≤ 9223372036854775807) : atoi (natToStr n) = some (n : Int) := by
  rw [atoi_of_digits (natToStr_ne_nil n) (natToStr_allDigits n), digitsToNat_natToStr, if_pos h]

theorem atoi_intToStr (i : Int) (h1 : -9223372036854775808 ≤ i) (h2 : i ≤ 9223372036854775807) :
    atoi (intToStr i) = some i := by
  unfold intToStr
  split
  · rw [atoi_minus]
    have hall : (natToStr i.natAbs).all isDigit = true := allDigits_iff_all.mp (natToStr_allDigits _)
    have hne : (natToStr i.natAbs).isEmpty = false := by
      simpa using natToStr_ne_nil i.natAbs
    simp only [atoiBody, hall, hne, digitsToNat_natToStr]
    simp
    omega
  · have : ((i.toNat : Nat) : Int) = i := by omega
    rw [atoi_natToStr _ (by omega), this]

end O2P
