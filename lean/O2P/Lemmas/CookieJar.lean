/-
  O2P.Lemmas.CookieJar — helper lemmas for the cookie-jar model (core Lean only).
-/
import O2P.Model.CookieJar

namespace O2P

/-! ### decimal rendering -/

theorem natToStr_eq (n : Nat) : natToStr n = Nat.toDigits 10 n := by
  simp [natToStr]

theorem natToStr_ne_nil (n : Nat) : natToStr n ≠ [] := by
  rw [natToStr_eq]; exact Nat.toDigits_ne_nil

theorem natToStr_length_pos (n : Nat) : 0 < (natToStr n).length := by
  rw [natToStr_eq]; exact Nat.length_toDigits_pos

theorem natToStr_inj {i j : Nat} (h : natToStr i = natToStr j) : i = j := by
  rw [natToStr_eq, natToStr_eq] at h
  have := congrArg (fun l => Nat.ofDigitChars 10 l 0) h
  simpa using this

theorem underscore_not_mem_natToStr (n : Nat) : '_' ∉ natToStr n := by
  rw [natToStr_eq]; exact Nat.underscore_not_in_toDigits

theorem isDigit_of_char_isDigit {c : Char} (h : c.isDigit = true) : isDigit c = true := by
  simp only [Char.isDigit, Bool.and_eq_true, decide_eq_true_eq] at h
  simp only [isDigit, Bool.and_eq_true, decide_eq_true_eq, Char.le_def]
  exact ⟨by simpa using h.1, by simpa using h.2⟩

theorem natToStr_all_isDigit (n : Nat) : (natToStr n).all isDigit = true := by
  rw [natToStr_eq, List.all_eq_true]
  intro c hc
  exact isDigit_of_char_isDigit (Nat.isDigit_of_mem_toDigits (by decide) (by decide) hc)

theorem natToStr_length_le {n k : Nat} (hk : 0 < k) (h : n < 10 ^ k) : (natToStr n).length ≤ k := by
  rw [natToStr_eq]; exact (Nat.length_toDigits_le_iff (by decide) hk).2 h


/-! ### splitCookieName -/

/-- the part name is always a prefix of `name` followed by `_count` -/
theorem splitCookieName_form (name : Str) (i : Nat) :
    ∃ k, splitCookieName name i = name.take k ++ '_' :: natToStr i := by
  unfold splitCookieName
  simp only
  split
  · exact ⟨_, rfl⟩
  · exact ⟨name.length, by simp⟩

theorem sep_suffix_unique {a b x y : Str} (h : a ++ '_' :: x = b ++ '_' :: y)
    (hx : '_' ∉ x) (hy : '_' ∉ y) : x = y := by
  induction a generalizing b with
  | nil =>
    cases b with
    | nil => simpa using h
    | cons b0 b' =>
      simp at h
      exact absurd (h.2 ▸ (by simp : '_' ∈ b' ++ '_' :: y)) hx
  | cons a0 a' ih =>
    cases b with
    | nil =>
      simp at h
      exact absurd (h.2 ▸ (by simp : '_' ∈ a' ++ '_' :: x)) hy
    | cons b0 b' =>
      simp at h
      exact ih h.2

/-- parts with different counters have different names, for every `name` (the truncation keeps
    the `_count` suffix) -/
theorem splitCookieName_inj {name : Str} {i j : Nat}
    (h : splitCookieName name i = splitCookieName name j) : i = j := by
  obtain ⟨k, hk⟩ := splitCookieName_form name i
  obtain ⟨l, hl⟩ := splitCookieName_form name j
  rw [hk, hl] at h
  exact natToStr_inj (sep_suffix_unique h (underscore_not_mem_natToStr i) (underscore_not_mem_natToStr j))

/-- no truncation up to and including counter `n` -/
def NoTrunc (name : Str) (n : Nat) : Prop :=
  ∀ i, i ≤ n → name.length + 1 + (natToStr i).length ≤ 256

theorem splitCookieName_of_le {name : Str} {i : Nat}
    (h : name.length + 1 + (natToStr i).length ≤ 256) :
    splitCookieName name i = name ++ '_' :: natToStr i := by
  unfold splitCookieName
  simp only
  rw [if_neg]
  simp; omega

theorem splitCookieName_length (name : Str) (i : Nat) :
    (splitCookieName name i).length =
      if name.length + 1 + (natToStr i).length > 256 then
        (name.length - (name.length + 1 + (natToStr i).length - 256)) + 1 + (natToStr i).length
      else name.length + 1 + (natToStr i).length := by
  unfold splitCookieName
  simp only [List.length_append, List.length_cons]
  split
  · simp only [List.length_append, List.length_cons, List.length_take]
    rw [if_pos (by omega)]; omega
  · rw [if_neg (by omega)]
    simp only [List.length_append, List.length_cons]; omega

theorem splitCookieName_length_ge {name : Str} (h : name.length ≤ 256) (i : Nat) :
    name.length ≤ (splitCookieName name i).length := by
  rw [splitCookieName_length]; split <;> omega

theorem splitCookieName_ne_name {name : Str} (h : name.length ≤ 255) (i : Nat) :
    splitCookieName name i ≠ name := by
  intro he
  have hl := congrArg List.length he
  rw [splitCookieName_length] at hl
  have := natToStr_length_pos i
  split at hl <;> omega

/-- a part name never exceeds 256 bytes as long as the counter has at most 255 digits -/
theorem splitCookieName_length_le_256 {name : Str} {i : Nat} (h : (natToStr i).length ≤ 255) :
    (splitCookieName name i).length ≤ 256 := by
  rw [splitCookieName_length]; split <;> omega


/-! ### splitCookie -/

/-- Progress hypothesis: for every counter up to `n` a part named `name_i` with an empty value
    is strictly shorter than `maxLen`, i.e. every iteration of the Go loop can put at least one
    value byte into the part (`valueSize ≥ 1`). -/
def Progress (maxLen A : Nat) (name : Str) (n : Nat) : Prop :=
  ∀ i, i ≤ n → (splitCookieName name i).length + 1 + A < maxLen

structure SplitOk (maxLen A : Nat) (name : Str) (count : Nat) (rest : Str)
    (ps : List (Str × Str)) : Prop where
  concat   : (ps.map Prod.snd).flatten = rest
  names    : ps.map Prod.fst = (List.range' count ps.length).map (splitCookieName name)
  fits     : ∀ p ∈ ps, cookieLen A p.1 p.2 ≤ maxLen
  nonempty : ∀ p ∈ ps, p.2 ≠ []
  len_le   : ps.length ≤ rest.length
  two      : rest ≠ [] → cookieLen A (splitCookieName name count) rest > maxLen → 2 ≤ ps.length

theorem splitLoop_nil (maxLen A : Nat) (name : Str) (fuel count : Nat) :
    splitLoop maxLen A name fuel count [] = .ok [] := by
  cases fuel <;> rfl

theorem splitLoop_cons (maxLen A : Nat) (name : Str) (fuel count : Nat) (r : Char) (rs : Str) :
    splitLoop maxLen A name (fuel + 1) count (r :: rs) =
      if cookieLen A (splitCookieName name count) (r :: rs) ≤ maxLen then
        .ok [(splitCookieName name count, r :: rs)]
      else if (r :: rs).length < cookieLen A (splitCookieName name count) (r :: rs) - maxLen then
        .panic "slice bounds out of range"
      else if (r :: rs).length - (cookieLen A (splitCookieName name count) (r :: rs) - maxLen) = 0 then
        (if name.length + 1 + (natToStr count).length < 256 then
          .panic "slice bounds out of range" else .err "noProgress")
      else
        match splitLoop maxLen A name fuel (count + 1)
            ((r :: rs).drop ((r :: rs).length -
              (cookieLen A (splitCookieName name count) (r :: rs) - maxLen))) with
        | .ok ps => .ok ((splitCookieName name count, (r :: rs).take ((r :: rs).length -
              (cookieLen A (splitCookieName name count) (r :: rs) - maxLen))) :: ps)
        | e => e := by
  rfl

theorem splitLoop_ok (maxLen A : Nat) (name : Str) :
    ∀ (fuel count : Nat) (rest : Str), rest.length ≤ fuel →
      (∀ i, count ≤ i → i < count + rest.length → (splitCookieName name i).length + 1 + A < maxLen) →
      ∃ ps, splitLoop maxLen A name fuel count rest = .ok ps ∧ SplitOk maxLen A name count rest ps := by
  intro fuel
  induction fuel with
  | zero =>
    intro count rest hf _
    have : rest = [] := List.length_eq_zero_iff.mp (by omega)
    subst this
    exact ⟨[], rfl, ⟨rfl, rfl, by simp, by simp, by simp, by simp⟩⟩
  | succ fuel ih =>
    intro count rest hf hp
    cases rest with
    | nil => exact ⟨[], rfl, ⟨rfl, rfl, by simp, by simp, by simp, by simp⟩⟩
    | cons r rs =>
      rw [splitLoop_cons]
      have hp0 := hp count (Nat.le_refl _) (by simp)
      generalize hpn : splitCookieName name count = pn at *
      generalize hrest : r :: rs = rest at *
      have hrl : 0 < rest.length := by rw [← hrest]; simp
      split
      · rename_i hle
        refine ⟨_, rfl, ⟨by simp, by simp [hpn], ?_, ?_, by simp; omega, ?_⟩⟩
        · intro p hp; simp at hp; subst hp; exact hle
        · intro p hp; simp at hp; subst hp; rw [← hrest]; simp
        · intro _ h; rw [hpn] at h; omega
      · rename_i hgt
        have hLe : cookieLen A pn rest = pn.length + 1 + rest.length + A := rfl
        generalize cookieLen A pn rest = L at *
        rw [if_neg (by omega), if_neg (by omega)]
        generalize hvs : rest.length - (L - maxLen) = vs
        have hvs1 : 0 < vs := by omega
        have hvs2 : vs < rest.length := by omega
        have hvs3 : pn.length + 1 + vs + A = maxLen := by omega
        obtain ⟨ps, hps, hok⟩ := ih (count + 1) (rest.drop vs)
          (by simp only [List.length_drop]; omega)
          (by
            intro i hi1 hi2
            simp only [List.length_drop] at hi2
            exact hp i (by omega) (by omega))
        rw [hps]
        refine ⟨_, rfl, ⟨?_, ?_, ?_, ?_, ?_, ?_⟩⟩
        · simp [hok.concat]
        · simp [List.range', hok.names, hpn]
        · intro p hp
          simp at hp
          rcases hp with rfl | hp
          · simp only [cookieLen, List.length_take]; omega
          · exact hok.fits p hp
        · intro p hp
          simp at hp
          rcases hp with rfl | hp
          · simp only; intro h
            have := congrArg List.length h
            simp only [List.length_take, List.length_nil] at this; omega
          · exact hok.nonempty p hp
        · have := hok.len_le
          simp only [List.length_drop] at this
          simp only [List.length_cons]; omega
        · intro _ _
          have hne : ps ≠ [] := by
            intro h
            have := hok.concat
            rw [h] at this
            simp at this
            omega
          have : 0 < ps.length := List.length_pos_iff.mpr hne
          simp only [List.length_cons]; omega


/-- Fuel adequacy of the model of the `splitCookie` loop: any two fuels `≥ rest.length` give
    the same outcome (every iteration that continues consumes at least one byte), so the model
    computes what the unbounded Go loop computes and `.err "fuel"` is unreachable from
    `splitCookie`. -/
theorem splitLoop_fuel (maxLen A : Nat) (name : Str) :
    ∀ (fuel fuel' count : Nat) (rest : Str), rest.length ≤ fuel → rest.length ≤ fuel' →
      splitLoop maxLen A name fuel count rest = splitLoop maxLen A name fuel' count rest := by
  intro fuel
  induction fuel with
  | zero =>
    intro fuel' count rest hf _
    have : rest = [] := List.length_eq_zero_iff.mp (by omega)
    subst this
    rw [splitLoop_nil, splitLoop_nil]
  | succ fuel ih =>
    intro fuel' count rest hf hf'
    cases rest with
    | nil => rw [splitLoop_nil, splitLoop_nil]
    | cons r rs =>
      cases fuel' with
      | zero => simp at hf'
      | succ fuel' =>
        rw [splitLoop_cons, splitLoop_cons]
        split
        · rfl
        · split
          · rfl
          · split
            · rfl
            · rename_i h1 h2 h3
              rw [ih fuel' (count + 1) _ (by simp only [List.length_drop]; omega)
                (by simp only [List.length_drop]; omega)]

/-! ### jar -/

theorem jarGet_jarSet (jar : Jar) (n v m : Str) :
    jarGet (jarSet jar n v) m = if m = n then some v else jarGet jar m := by
  induction jar with
  | nil => simp only [jarSet, jarGet]; grind
  | cons p rest ih =>
    obtain ⟨a, w⟩ := p
    simp only [jarSet]
    split <;> simp only [jarGet, ih] <;> grind

theorem jarGet_jarErase (jar : Jar) (n m : Str) :
    jarGet (jarErase jar n) m = if m = n then none else jarGet jar m := by
  induction jar with
  | nil => simp [jarErase, jarGet]
  | cons p rest ih =>
    obtain ⟨a, w⟩ := p
    unfold jarErase at ih ⊢
    simp only [List.filter_cons]
    split <;> simp only [jarGet, ih] <;> grind

theorem jarGet_applySetCookie (jar : Jar) (c : SetCookie) (m : Str) :
    jarGet (applySetCookie jar c) m =
      if m = c.name then (if c.del then none else some c.value) else jarGet jar m := by
  unfold applySetCookie
  split
  · rw [jarGet_jarErase]
  · rw [jarGet_jarSet]

theorem applySetCookies_cons (jar : Jar) (c : SetCookie) (cs : List SetCookie) :
    applySetCookies jar (c :: cs) = applySetCookies (applySetCookie jar c) cs := rfl

theorem applySetCookies_append (jar : Jar) (cs ds : List SetCookie) :
    applySetCookies jar (cs ++ ds) = applySetCookies (applySetCookies jar cs) ds := by
  simp [applySetCookies, List.foldl_append]

/-- a name no header mentions is untouched -/
theorem jarGet_apply_of_not_mem (cs : List SetCookie) (jar : Jar) (m : Str)
    (h : m ∉ cs.map SetCookie.name) : jarGet (applySetCookies jar cs) m = jarGet jar m := by
  induction cs generalizing jar with
  | nil => rfl
  | cons c cs ih =>
    simp only [List.map_cons, List.mem_cons, not_or] at h
    rw [applySetCookies_cons, ih _ h.2, jarGet_applySetCookie, if_neg h.1]

/-- the last header for a name decides -/
theorem jarGet_apply_split (l1 l2 : List SetCookie) (c : SetCookie) (jar : Jar)
    (h : c.name ∉ l2.map SetCookie.name) :
    jarGet (applySetCookies jar (l1 ++ c :: l2)) c.name =
      if c.del then none else some c.value := by
  rw [applySetCookies_append, applySetCookies_cons, jarGet_apply_of_not_mem _ _ _ h,
    jarGet_applySetCookie, if_pos rfl]

/-- if every header for `m` is a deletion, and `m` is absent or some header mentions it, then
    `m` is absent afterwards -/
theorem jarGet_apply_deleted (cs : List SetCookie) (jar : Jar) (m : Str)
    (hdel : ∀ c ∈ cs, c.name = m → c.del = true)
    (h : jarGet jar m = none ∨ m ∈ cs.map SetCookie.name) :
    jarGet (applySetCookies jar cs) m = none := by
  induction cs generalizing jar with
  | nil => simpa [applySetCookies] using h
  | cons c cs ih =>
    rw [applySetCookies_cons]
    apply ih _ (fun d hd => hdel d (List.mem_cons_of_mem _ hd))
    rw [jarGet_applySetCookie]
    by_cases hm : m = c.name
    · left; rw [if_pos hm, hdel c (List.mem_cons_self) hm.symm]; rfl
    · rw [if_neg hm]
      rcases h with h | h
      · exact Or.inl h
      · simp only [List.map_cons, List.mem_cons] at h
        rcases h with h | h
        · exact absurd h hm
        · exact Or.inr h

theorem jarGet_eq_none_iff (jar : Jar) (m : Str) :
    jarGet jar m = none ↔ m ∉ jar.map Prod.fst := by
  induction jar with
  | nil => simp [jarGet]
  | cons p rest ih =>
    obtain ⟨a, w⟩ := p
    simp only [jarGet, List.map_cons, List.mem_cons, not_or]
    split <;> grind

theorem mem_of_jarGet_some {jar : Jar} {m v : Str} (h : jarGet jar m = some v) :
    (m, v) ∈ jar := by
  induction jar with
  | nil => simp [jarGet] at h
  | cons p rest ih =>
    obtain ⟨a, w⟩ := p
    simp only [jarGet] at h
    split at h
    · rename_i ha; subst ha; simp at h; subst h; simp
    · exact List.mem_cons_of_mem _ (ih h)


/-! ### loadCookie -/

theorem nodup_partNames (name : Str) (c k : Nat) :
    ((List.range' c k).map (splitCookieName name)).Nodup := by
  have h : (List.range' c k).Nodup := List.nodup_range'
  exact List.Pairwise.map _ (fun a b hab he => hab (splitCookieName_inj he)) h

theorem collectParts_exact (jar : Jar) (name : Str) (vs : List Str) :
    ∀ (fuel c : Nat), vs.length < fuel →
      (∀ i (h : i < vs.length), jarGet jar (splitCookieName name (c + i)) = some vs[i]) →
      jarGet jar (splitCookieName name (c + vs.length)) = none →
      collectParts jar name fuel c = vs := by
  induction vs with
  | nil =>
    intro fuel c hf _ hnone
    cases fuel with
    | zero => simp at hf
    | succ f => simp only [List.length_nil, Nat.add_zero] at hnone; simp [collectParts, hnone]
  | cons v vs ih =>
    intro fuel c hf hget hnone
    cases fuel with
    | zero => simp at hf
    | succ f =>
      have h0 := hget 0 (by simp)
      simp only [Nat.add_zero, List.getElem_cons_zero] at h0
      simp only [collectParts, h0]
      congr 1
      apply ih f (c + 1) (by simp at hf; omega)
      · intro i hi
        have := hget (i + 1) (by simp; omega)
        simp only [List.getElem_cons_succ] at this
        rw [← this]; congr 2; omega
      · rw [← hnone]; congr 2; simp; omega

theorem collectParts_get (jar : Jar) (name : Str) :
    ∀ (fuel c i : Nat) (v : Str), (collectParts jar name fuel c)[i]? = some v →
      jarGet jar (splitCookieName name (c + i)) = some v := by
  intro fuel
  induction fuel with
  | zero => intro c i v h; simp [collectParts] at h
  | succ f ih =>
    intro c i v h
    cases hj : jarGet jar (splitCookieName name c) with
    | none => simp [collectParts, hj] at h
    | some w =>
      simp only [collectParts, hj] at h
      cases i with
      | zero => simp at h; subst h; simpa using hj
      | succ i =>
        simp only [List.getElem?_cons_succ] at h
        have := ih (c + 1) i v h
        rw [← this]; congr 2; omega

/-- pigeonhole: the loop of `loadCookie` finds at most `jar.length` parts -/
theorem collectParts_length_le (jar : Jar) (name : Str) (fuel c : Nat) :
    (collectParts jar name fuel c).length ≤ jar.length := by
  have hsub : (List.range' c (collectParts jar name fuel c).length).map (splitCookieName name)
      ⊆ jar.map Prod.fst := by
    intro n hn
    simp only [List.mem_map, List.mem_range'_1] at hn
    obtain ⟨i, ⟨hi1, hi2⟩, rfl⟩ := hn
    have hlt : i - c < (collectParts jar name fuel c).length := by omega
    have := collectParts_get jar name fuel c (i - c) _ (List.getElem?_eq_getElem hlt)
    rw [show c + (i - c) = i by omega] at this
    have hne : jarGet jar (splitCookieName name i) ≠ none := by rw [this]; simp
    rw [Ne, jarGet_eq_none_iff, Classical.not_not] at hne
    exact hne
  have := List.Nodup.length_le_of_subset (nodup_partNames name c _) hsub
  simpa using this

/-- once the loop stopped because a part is missing, more fuel changes nothing -/
theorem collectParts_fuel_mono (jar : Jar) (name : Str) :
    ∀ (fuel fuel' c : Nat), (collectParts jar name fuel c).length < fuel → fuel ≤ fuel' →
      collectParts jar name fuel' c = collectParts jar name fuel c := by
  intro fuel
  induction fuel with
  | zero => intro fuel' c h; simp at h
  | succ f ih =>
    intro fuel' c h hle
    cases fuel' with
    | zero => omega
    | succ f' =>
      unfold collectParts at h ⊢
      split
      · rfl
      · rename_i v hv
        simp only [hv, List.length_cons, Nat.add_lt_add_iff_right] at h
        simp only [List.cons.injEq, true_and]
        exact ih f' (c + 1) h (by omega)

/-- Fuel adequacy of the model of `loadCookie`'s loop: with any fuel above `jar.length` the
    result is the same, i.e. the model computes what the unbounded Go loop computes. -/
theorem collectParts_fuel (jar : Jar) (name : Str) (fuel : Nat) (h : jar.length + 1 ≤ fuel) :
    collectParts jar name fuel 0 = collectParts jar name (jar.length + 1) 0 :=
  collectParts_fuel_mono jar name (jar.length + 1) fuel 0
    (Nat.lt_succ_of_le (collectParts_length_le jar name _ 0)) h

theorem loadCookie_exact {jar : Jar} {name v : Str} (h : jarGet jar name = some v) :
    loadCookie jar name = some (name, v) := by
  simp [loadCookie, h]

theorem loadCookie_none {jar : Jar} {name : Str} (h : jarGet jar name = none)
    (h0 : jarGet jar (splitCookieName name 0) = none) : loadCookie jar name = none := by
  simp [loadCookie, h, collectParts, h0]

/-- the jar holds exactly the parts `vs` (at least two) under the part names -/
theorem loadCookie_parts {jar : Jar} {name : Str} {vs : List Str}
    (hname : jarGet jar name = none)
    (hparts : ∀ i (h : i < vs.length), jarGet jar (splitCookieName name i) = some vs[i])
    (hend : jarGet jar (splitCookieName name vs.length) = none)
    (h2 : 2 ≤ vs.length) :
    loadCookie jar name = some (name, vs.flatten) := by
  have hcp : ∀ fuel, vs.length < fuel → collectParts jar name fuel 0 = vs := fun fuel hf =>
    collectParts_exact jar name vs fuel 0 hf (by simpa using hparts) (by simpa using hend)
  have hlen : vs.length ≤ jar.length := by
    have := collectParts_length_le jar name (vs.length + 1) 0
    rwa [hcp _ (Nat.lt_succ_self _)] at this
  have := hcp (jar.length + 1) (by omega)
  simp only [loadCookie, hname, this]
  match vs, h2 with
  | a :: b :: rest, _ => rfl


/-! ### the name matcher `isSessionCookieName` of `Clear` / `Save` -/

theorem lastIndexOf_go_not_mem (c : Char) (x : Str) (h : c ∉ x) (i : Nat) (best : Option Nat) :
    lastIndexOf.go c i best x = best := by
  induction x generalizing i best with
  | nil => rfl
  | cons d ds ih =>
    simp only [List.mem_cons, not_or] at h
    simp only [lastIndexOf.go]
    rw [if_neg (fun e => h.1 e.symm)]
    exact ih h.2 _ _

theorem lastIndexOf_go_append (c : Char) (a b : Str) (i : Nat) (best : Option Nat) :
    lastIndexOf.go c i best (a ++ b) = lastIndexOf.go c (i + a.length) (lastIndexOf.go c i best a) b := by
  induction a generalizing i best with
  | nil => simp [lastIndexOf.go]
  | cons d ds ih =>
    simp only [List.cons_append, lastIndexOf.go, List.length_cons]
    rw [ih]; congr 1; omega

theorem lastIndexOf_append_sep (c : Char) (a x : Str) (h : c ∉ x) :
    lastIndexOf c (a ++ c :: x) = some a.length := by
  unfold lastIndexOf
  rw [lastIndexOf_go_append]
  simp only [lastIndexOf.go, if_true, Nat.zero_add]
  exact lastIndexOf_go_not_mem c x h _ _

theorem lastIndexOf_some_lt {c : Char} {s : Str} {idx : Nat} (h : lastIndexOf c s = some idx) :
    idx < s.length := by
  have key : ∀ (s : Str) (i : Nat) (best : Option Nat) (idx : Nat),
      lastIndexOf.go c i best s = some idx → (best = some idx) ∨ (i ≤ idx ∧ idx < i + s.length) := by
    intro s
    induction s with
    | nil => intro i best idx h; exact Or.inl h
    | cons d ds ih =>
      intro i best idx h
      simp only [lastIndexOf.go] at h
      rcases ih _ _ _ h with h' | ⟨h1, h2⟩
      · split at h'
        · right; simp at h'; subst h'; simp
        · exact Or.inl h'
      · right; simp only [List.length_cons]; omega
  rcases key s 0 none idx h with h' | ⟨_, h2⟩
  · simp at h'
  · omega

theorem digitsToNat_eq (s : Str) : digitsToNat s = Nat.ofDigitChars 10 s 0 := by
  unfold digitsToNat Nat.ofDigitChars
  congr 1
  funext acc c
  rw [Nat.mul_comm]; rfl

theorem digitsToNat_natToStr (i : Nat) : digitsToNat (natToStr i) = i := by
  rw [digitsToNat_eq, natToStr_eq]; simp

theorem atoi_natToStr {i : Nat} (h : i ≤ 9223372036854775807) : atoi (natToStr i) = some (i : Int) := by
  have hne := natToStr_ne_nil i
  have hall := natToStr_all_isDigit i
  unfold atoi
  cases hs : natToStr i with
  | nil => exact absurd hs hne
  | cons d ds =>
    have hd : isDigit d = true := by
      rw [hs] at hall; simp at hall; exact hall.1
    have hm : d ≠ '-' := by intro e; subst e; simp [isDigit] at hd
    have hp : d ≠ '+' := by intro e; subst e; simp [isDigit] at hd
    have hdn := digitsToNat_natToStr i
    rw [hs] at hdn hall
    split
    rename_i x neg ds' heq
    split at heq
    · rename_i r he; simp at he; exact absurd he.1 hm
    · rename_i r he; simp at he; exact absurd he.1 hp
    · simp only [Prod.mk.injEq] at heq
      obtain ⟨rfl, rfl⟩ := heq
      simp only [List.isEmpty_cons, Bool.false_or, hall, Bool.not_true, Bool.false_eq_true, if_false, hdn]
      simp [h]

theorem atoi_le {s : Str} {c : Int} (h : atoi s = some c) : c ≤ 9223372036854775807 := by
  unfold atoi at h
  split at h <;> simp only at h <;> split at h <;> try (simp at h)
  all_goals (split at h <;> simp at h <;> omega)


theorem matchesSessionName_iff (name n : Str) :
    matchesSessionName name n = true ↔
      n = name ∨ ∃ i : Nat, i ≤ 9223372036854775807 ∧ n = splitCookieName name i := by
  unfold matchesSessionName
  simp only [Bool.or_eq_true, beq_iff_eq]
  constructor
  · rintro (h | h)
    · exact Or.inl h
    · right
      split at h
      · simp at h
      · rename_i idx _
        split at h
        · simp at h
        · rename_i count hc
          simp only [Bool.and_eq_true, decide_eq_true_eq, beq_iff_eq] at h
          refine ⟨count.toNat, ?_, h.2⟩
          have := atoi_le hc
          omega
  · rintro (h | ⟨i, hi, rfl⟩)
    · exact Or.inl h
    · right
      obtain ⟨k, hk⟩ := splitCookieName_form name i
      have hl : lastIndexOf '_' (splitCookieName name i) = some (name.take k).length := by
        rw [hk]; exact lastIndexOf_append_sep '_' _ _ (underscore_not_mem_natToStr i)
      have hd : (splitCookieName name i).drop ((name.take k).length + 1) = natToStr i := by
        rw [hk, show name.take k ++ '_' :: natToStr i = (name.take k ++ ['_']) ++ natToStr i by simp]
        exact List.drop_left' (by simp)
      simp only [hl, hd, atoi_natToStr hi]
      simp

theorem matchesSessionName_self (name : Str) : matchesSessionName name name = true :=
  (matchesSessionName_iff name name).2 (Or.inl rfl)

/-- every part name whose counter fits a Go `int` is recognised — truncated or not -/
theorem matchesSessionName_part (name : Str) {i : Nat} (h : i ≤ 9223372036854775807) :
    matchesSessionName name (splitCookieName name i) = true :=
  (matchesSessionName_iff _ _).2 (Or.inr ⟨i, h, rfl⟩)

/-- the pre-fix regular-expression matcher -/
theorem matchesSessionNameRegex_iff (name n : Str) :
    matchesSessionNameRegex name n = true ↔
      n = name ∨ ∃ ds : Str, ds ≠ [] ∧ ds.all isDigit = true ∧ n = name ++ '_' :: ds := by
  unfold matchesSessionNameRegex hasPrefix
  simp only [Bool.or_eq_true, beq_iff_eq, Bool.and_eq_true, List.isPrefixOf_iff_prefix]
  constructor
  · rintro (h | ⟨⟨t, rfl⟩, h⟩)
    · exact Or.inl h
    · right
      rw [List.drop_left] at h
      split at h
      · rename_i ds
        simp only [Bool.and_eq_true, Bool.not_eq_true', List.isEmpty_eq_false_iff] at h
        exact ⟨ds, h.1, h.2, rfl⟩
      · simp at h
  · rintro (h | ⟨ds, h1, h2, rfl⟩)
    · exact Or.inl h
    · right
      refine ⟨⟨_, rfl⟩, ?_⟩
      rw [List.drop_left]
      simp [h1, h2]

/-! ### makeSessionCookies -/

theorem splitCookie_loop_ok {maxLen A : Nat} {name v : Str}
    (hp : Progress maxLen A name v.length) :
    ∃ ps, splitLoop maxLen A name (v.length + 1) 0 v = .ok ps ∧ SplitOk maxLen A name 0 v ps :=
  splitLoop_ok maxLen A name (v.length + 1) 0 v (Nat.le_succ _)
    (fun i _ hi => hp i (by omega))

theorem makeSessionCookies_spec {maxLen A : Nat} {name v : Str} (hname : name.length ≤ 256)
    (hp : Progress maxLen A name v.length) :
    (cookieLen A name v ≤ maxLen ∧ makeSessionCookies maxLen A name v = .ok [(name, v)]) ∨
    (maxLen < cookieLen A name v ∧ ∃ ps, makeSessionCookies maxLen A name v = .ok ps ∧
        SplitOk maxLen A name 0 v ps ∧ 2 ≤ ps.length) := by
  by_cases h : cookieLen A name v ≤ maxLen
  · left
    refine ⟨h, ?_⟩
    unfold makeSessionCookies
    rw [if_neg (by omega)]
  · right
    have h' : maxLen < cookieLen A name v := by omega
    refine ⟨h', ?_⟩
    obtain ⟨ps, hps, hok⟩ := splitCookie_loop_ok hp
    refine ⟨ps, ?_, hok, ?_⟩
    · unfold makeSessionCookies splitCookie
      rw [if_pos h', if_neg (by omega), hps]
    · have h0 := hp 0 (Nat.zero_le _)
      have hge := splitCookieName_length_ge hname 0
      apply hok.two
      · intro hv
        subst hv
        simp only [cookieLen, List.length_nil] at h'
        omega
      · simp only [cookieLen] at h' ⊢
        omega

theorem SplitOk.name_at {maxLen A : Nat} {name v : Str} {c : Nat} {ps : List (Str × Str)}
    (hok : SplitOk maxLen A name c v ps) (i : Nat) (hi : i < ps.length) :
    ps[i].1 = splitCookieName name (c + i) := by
  have := congrArg (fun l => l[i]?) hok.names
  simp only [List.getElem?_map, List.getElem?_eq_getElem hi, Option.map_some,
    List.getElem?_range' hi] at this
  simpa using this

theorem SplitOk.names_nodup {maxLen A : Nat} {name v : Str} {c : Nat} {ps : List (Str × Str)}
    (hok : SplitOk maxLen A name c v ps) : (ps.map Prod.fst).Nodup := by
  rw [hok.names]; exact nodup_partNames name c _

theorem SplitOk.mem_names_iff {maxLen A : Nat} {name v : Str} {ps : List (Str × Str)}
    (hok : SplitOk maxLen A name 0 v ps) (n : Str) :
    n ∈ ps.map Prod.fst ↔ ∃ i, i < ps.length ∧ n = splitCookieName name i := by
  rw [hok.names]
  simp only [List.mem_map, List.mem_range'_1]
  constructor
  · rintro ⟨i, ⟨_, hi⟩, rfl⟩; exact ⟨i, by omega, rfl⟩
  · rintro ⟨i, hi, rfl⟩; exact ⟨i, ⟨by omega, by omega⟩, rfl⟩

/-! ### applying the headers of a save -/

theorem jarGet_apply_sets (pre : List SetCookie) (ps : List (Str × Str)) (jar : Jar)
    (i : Nat) (hi : i < ps.length) (hnd : (ps.map Prod.fst).Nodup) :
    jarGet (applySetCookies jar (pre ++ ps.map toSet)) ps[i].1 = some ps[i].2 := by
  have hsplit : ps = ps.take i ++ ps[i] :: ps.drop (i + 1) := by
    rw [← List.drop_eq_getElem_cons hi, List.take_append_drop]
  have hl : pre ++ ps.map toSet =
      (pre ++ (ps.take i).map toSet) ++ toSet ps[i] :: (ps.drop (i + 1)).map toSet := by
    have := congrArg (fun l => pre ++ l.map toSet) hsplit
    simpa only [List.map_append, List.map_cons, List.append_assoc, List.cons_append] using this
  rw [hl]
  have := jarGet_apply_split (pre ++ (ps.take i).map toSet) ((ps.drop (i + 1)).map toSet)
    (toSet ps[i]) jar (by
      rw [hsplit] at hnd
      simp only [List.map_append, List.map_cons, List.nodup_append, List.nodup_cons] at hnd
      have := hnd.2.1.1
      simpa [toSet, Function.comp_def] using this)
  simpa [toSet] using this

/-! ### shape of the session cookies in the jar -/

/-- the collision of a part name with the base name (a 256-byte name ending in `_<digits>` is
    its own part `i`) does not occur -/
def NoCollision (name : Str) : Prop := ∀ i, splitCookieName name i ≠ name

theorem noCollision_of_length {name : Str} (h : name.length ≤ 255) : NoCollision name :=
  fun i => splitCookieName_ne_name h i

/-- `Shape name jar cur`: among the names `isSessionCookieName` recognises, the jar holds
    nothing (`cur = none`), exactly the unsplit cookie, or exactly the parts `name_0 … name_{k-1}`
    (`k ≥ 2`, `k` within the Go `int` range) whose values concatenate to the session value. -/
inductive Shape (name : Str) (jar : Jar) : Option Str → Prop
  | empty : (∀ n, matchesSessionName name n = true → jarGet jar n = none) → Shape name jar none
  | single (v : Str) : jarGet jar name = some v →
      (∀ n, matchesSessionName name n = true → n ≠ name → jarGet jar n = none) →
      Shape name jar (some v)
  | parts (vs : List Str) : 2 ≤ vs.length → vs.length ≤ 9223372036854775807 →
      (∀ i (h : i < vs.length), jarGet jar (splitCookieName name i) = some vs[i]) →
      (∀ n, matchesSessionName name n = true →
          (∀ i, i < vs.length → n ≠ splitCookieName name i) → jarGet jar n = none) →
      Shape name jar (some vs.flatten)

/-- nothing loads from a jar without session cookies — for every cookie name -/
theorem Shape.load_none {name : Str} {jar : Jar} (h : Shape name jar none) :
    loadCookie jar name = none := by
  cases h with
  | empty hnone =>
    exact loadCookie_none (hnone _ (matchesSessionName_self name))
      (hnone _ (matchesSessionName_part name (by decide)))

theorem Shape.load {name : Str} {jar : Jar} {cur : Option Str} (hnc : NoCollision name)
    (h : Shape name jar cur) : loadCookie jar name = cur.map (fun v => (name, v)) := by
  cases h with
  | empty hnone => exact (Shape.empty hnone).load_none
  | single v hv _ => exact loadCookie_exact hv
  | parts vs h2 hmax hparts hnone =>
    apply loadCookie_parts _ hparts _ h2
    · exact hnone _ (matchesSessionName_self name) (fun i _ he => hnc i he.symm)
    · exact hnone _ (matchesSessionName_part name hmax)
        (fun i hi he => by have := splitCookieName_inj he; omega)

theorem apply_saveFixed_general (name : Str) (ps : List (Str × Str)) (jar : Jar)
    (hnd : (ps.map Prod.fst).Nodup) :
    (∀ i (hi : i < ps.length),
      jarGet (applySetCookies jar ((jar.filter (fun p => matchesSessionName name p.1 && !(ps.map Prod.fst).contains p.1)).map
          (fun p => ⟨p.1, [], true⟩) ++ ps.map toSet)) ps[i].1 = some ps[i].2) ∧
    (∀ n, matchesSessionName name n = true → n ∉ ps.map Prod.fst →
      jarGet (applySetCookies jar ((jar.filter (fun p => matchesSessionName name p.1 && !(ps.map Prod.fst).contains p.1)).map
          (fun p => ⟨p.1, [], true⟩) ++ ps.map toSet)) n = none) := by
  constructor
  · intro i hi
    exact jarGet_apply_sets _ ps jar i hi hnd
  · intro n hm hn
    apply jarGet_apply_deleted
    · intro c hc hcn
      simp only [List.mem_append, List.mem_map] at hc
      rcases hc with ⟨p, _, rfl⟩ | ⟨p, hp, rfl⟩
      · rfl
      · exfalso; apply hn; rw [← hcn]; exact List.mem_map.2 ⟨p, hp, rfl⟩
    · cases hj : jarGet jar n with
      | none => exact Or.inl rfl
      | some w =>
        right
        have hmem := mem_of_jarGet_some hj
        simp only [List.map_append, List.map_map, List.mem_append]
        left
        refine List.mem_map.2 ⟨(n, w), List.mem_filter.2 ⟨hmem, ?_⟩, rfl⟩
        simp only [Bool.and_eq_true, hm, true_and, Bool.not_eq_true', List.contains_eq_mem,
          decide_eq_false_iff_not]
        exact hn

theorem saveFixed_of_ok {maxLen A : Nat} {name v : Str} {ps : List (Str × Str)} (jar : Jar)
    (h : makeSessionCookies maxLen A name v = .ok ps) :
    saveFixed maxLen A name v jar = .ok
      ((jar.filter (fun p => matchesSessionName name p.1 && !(ps.map Prod.fst).contains p.1)).map
        (fun p => ⟨p.1, [], true⟩) ++ ps.map toSet) := by
  simp only [saveFixed, h]

theorem save_of_ok {maxLen A : Nat} {name v : Str} {ps : List (Str × Str)}
    (h : makeSessionCookies maxLen A name v = .ok ps) :
    save maxLen A name v = .ok (ps.map toSet) := by
  simp only [save, h]

/-- After a fixed `Save` the session part of the jar is exactly the new session, whatever the
    browser held before. -/
theorem shape_saveFixed {maxLen A : Nat} {name v : Str} (hname : name.length ≤ 256)
    (hlen : v.length ≤ 9223372036854775807)
    (hp : Progress maxLen A name v.length) (jar : Jar) :
    ∃ cs, saveFixed maxLen A name v jar = .ok cs ∧
      Shape name (applySetCookies jar cs) (some v) := by
  rcases makeSessionCookies_spec hname hp with ⟨_, hmk⟩ | ⟨_, ps, hmk, hok, h2⟩
  · refine ⟨_, saveFixed_of_ok jar hmk, ?_⟩
    obtain ⟨h1, hrest⟩ := apply_saveFixed_general name [(name, v)] jar (by simp)
    apply Shape.single
    · simpa using h1 0 (by simp)
    · intro n hm hne
      exact hrest n hm (by simpa using hne)
  · refine ⟨_, saveFixed_of_ok jar hmk, ?_⟩
    obtain ⟨h1, hrest⟩ := apply_saveFixed_general name ps jar hok.names_nodup
    have hsh := Shape.parts (name := name)
      (jar := applySetCookies jar
        ((jar.filter (fun p => matchesSessionName name p.1 && !(ps.map Prod.fst).contains p.1)).map
          (fun p => ⟨p.1, [], true⟩) ++ ps.map toSet))
      (ps.map Prod.snd) (by simpa using h2)
      (by have := hok.len_le; simp only [List.length_map]; omega)
      (by
        intro i hi
        simp only [List.length_map] at hi
        have := h1 i hi
        rw [hok.name_at i hi] at this
        simpa using this)
      (by
        intro n hm hne
        apply hrest n hm
        rw [hok.mem_names_iff]
        rintro ⟨i, hi, rfl⟩
        exact hne i (by simpa using hi) rfl)
    rwa [hok.concat] at hsh

/-- Every header a fixed `Save` writes names a session cookie — so a `Clear` later in the same
    response drops all of them (`clearAfter` = `clearStore`). -/
theorem clearAfter_saveFixed {maxLen A : Nat} {name v : Str} (hname : name.length ≤ 256)
    (hlen : v.length ≤ 9223372036854775807)
    (hp : Progress maxLen A name v.length) (jar : Jar) {cs : List SetCookie}
    (h : saveFixed maxLen A name v jar = .ok cs) :
    clearAfter name cs jar = clearStore name jar := by
  have hall : ∀ c ∈ cs, matchesSessionName name c.name = true := by
    rcases makeSessionCookies_spec hname hp with ⟨_, hmk⟩ | ⟨_, ps, hmk, hok, _⟩
    · rw [saveFixed_of_ok jar hmk] at h
      cases h
      intro c hc
      simp only [List.mem_append, List.mem_map, List.mem_filter, Bool.and_eq_true] at hc
      rcases hc with ⟨p, ⟨_, hm, _⟩, rfl⟩ | ⟨p, hp', rfl⟩
      · exact hm
      · simp only [List.mem_singleton] at hp'
        subst hp'
        exact matchesSessionName_self name
    · rw [saveFixed_of_ok jar hmk] at h
      cases h
      intro c hc
      simp only [List.mem_append, List.mem_map, List.mem_filter, Bool.and_eq_true] at hc
      rcases hc with ⟨p, ⟨_, hm, _⟩, rfl⟩ | ⟨p, hp', rfl⟩
      · exact hm
      · have hmem : p.1 ∈ ps.map Prod.fst := List.mem_map_of_mem hp'
        obtain ⟨i, hi, hn⟩ := (hok.mem_names_iff p.1).1 hmem
        have hle := hok.len_le
        show matchesSessionName name p.1 = true
        rw [hn]
        exact matchesSessionName_part name (by omega)
  unfold clearAfter
  have : cs.filter (fun c => !matchesSessionName name c.name) = [] := by
    rw [List.filter_eq_nil_iff]
    intro c hc
    simp [hall c hc]
  rw [this, List.nil_append]

theorem shape_clear (name : Str) (jar : Jar) :
    Shape name (applySetCookies jar (clearStore name jar)) none := by
  apply Shape.empty
  intro n hm
  apply jarGet_apply_deleted
  · intro c hc _
    simp only [clearStore, List.mem_map] at hc
    obtain ⟨p, _, rfl⟩ := hc
    rfl
  · cases hj : jarGet jar n with
    | none => exact Or.inl rfl
    | some w =>
      right
      have hmem := mem_of_jarGet_some hj
      simp only [clearStore, List.map_map]
      exact List.mem_map.2 ⟨(n, w), List.mem_filter.2 ⟨hmem, hm⟩, rfl⟩

end O2P
