/-
  O2P.Lemmas.Binding — what equality of the undelimited MAC input
  `name ++ value64 ++ timestamp` does and does not determine.
-/
import O2P.Lemmas.Signed

namespace O2P

/-- a non-empty block `B` sits at the END of the issued encoded value `E` but at the FRONT of
    the presented timestamp `p1` -/
def ShiftLeft (E D p0 p1 : Str) : Prop := ∃ B, B ≠ [] ∧ E = p0 ++ B ∧ p1 = B ++ D

/-- a non-empty block `B` sits at the FRONT of the issued timestamp `D` but at the END of the
    presented encoded value `p0` -/
def ShiftRight (E D p0 p1 : Str) : Prop := ∃ B, B ≠ [] ∧ p0 = E ++ B ∧ D = B ++ p1

/-- the value/timestamp boundary was moved -/
def Shift (E D p0 p1 : Str) : Prop := ShiftLeft E D p0 p1 ∨ ShiftRight E D p0 p1

/-- the residual: `k ≥ 1` whole quanta `"0000"` moved from the end of the value to the front
    of the timestamp (where they are leading zeros) -/
def ZeroShift (E D p0 p1 : Str) : Prop :=
  ∃ k, 0 < k ∧ E = p0 ++ List.replicate (4 * k) '0' ∧ p1 = List.replicate (4 * k) '0' ++ D

/-- the bytes that `k` quanta `"0000"` decode to: `k` copies of D3 4D 34 -/
def zeroBlock : Nat → Str
  | 0 => []
  | k + 1 => Char.ofNat 0xD3 :: Char.ofNat 0x4D :: Char.ofNat 0x34 :: zeroBlock k

theorem append_trichotomy {p0 p1 E D : Str} (h : p0 ++ p1 = E ++ D) :
    (p0 = E ∧ p1 = D) ∨ Shift E D p0 p1 := by
  rcases List.append_eq_append_iff.mp h with ⟨a, h1, h2⟩ | ⟨c, h1, h2⟩
  · by_cases ha : a = []
    · subst ha; simp at h1 h2; exact .inl ⟨h1.symm, h2⟩
    · exact .inr (.inl ⟨a, ha, h1, h2⟩)
  · by_cases hc : c = []
    · subst hc; simp at h1 h2; exact .inl ⟨h1, h2.symm⟩
    · exact .inr (.inr ⟨c, hc, h1, h2⟩)

theorem allDigits_noCRLF {s : Str} (h : AllDigits s) : NoCRLF s :=
  fun c hc => isB64_not_isCRLF (isDigit_isB64 (url := true) (h c hc))

theorem NoCRLF.append {a b : Str} (ha : NoCRLF a) (hb : NoCRLF b) : NoCRLF (a ++ b) := by
  intro c hc; rcases List.mem_append.mp hc with h | h
  · exact ha c h
  · exact hb c h

theorem natToStr_zero_length : (natToStr 0).length = 1 := by
  rw [natToStr_eq, Nat.toDigits_zero]; rfl

/-- analysis of a left shift that passes `atoi` and the padded decoder -/
theorem shiftLeft_analysis {v p0 p1 v' : Str} {ts : Nat} {t' : Int}
    (hs : ShiftLeft (b64Encode true true v) (natToStr ts) p0 p1)
    (hdec : b64Decode true true p0 = some v') (hat : atoi p1 = some t') :
    ∃ B, B ≠ [] ∧ b64Encode true true v = p0 ++ B ∧ p1 = B ++ natToStr ts ∧ B.length % 4 = 0 ∧
      ((AllDigits B ∧ t' = (digitsToNat B * 10 ^ (natToStr ts).length + ts : Nat))
        ∨ (∃ B', B = '-' :: B' ∧ t' ≤ 0)) := by
  obtain ⟨B, hB, hE, hp1⟩ := hs
  refine ⟨B, hB, hE, hp1, ?_, ?_⟩
  · -- lengths
    have hno : NoCRLF p0 := fun c hc => b64Encode_noCRLF true true v c (by rw [hE]; simp [hc])
    rw [b64Decode_of_noCRLF true true hno] at hdec
    have h0 := b64DecodeCore_pad_length true p0 v' hdec
    have hEl := b64Encode_pad_length_mod4 true v
    rw [hE, List.length_append] at hEl
    omega
  · have hBE : ∀ c ∈ B, isB64 true c ∨ c = '=' := by
      intro c hc
      rcases b64Encode_alphabet true true v c (by rw [hE]; simp [hc]) with h | ⟨_, h⟩
      · exact .inl h
      · exact .inr h
    rcases atoi_some_cases hat with ⟨_, hd, ht⟩ | ⟨r, hr, _, _, _⟩ | ⟨r, hr, _, hd, ht⟩
    · left
      rw [hp1] at hd ht
      refine ⟨hd.left, ?_⟩
      rw [ht, digitsToNat_append, digitsToNat_natToStr]
    · exfalso
      rw [hp1] at hr
      cases B with
      | nil => exact hB rfl
      | cons b B' =>
        simp only [List.cons_append, List.cons.injEq] at hr
        rcases hBE b (by simp) with h | h
        · exact isB64_url_ne_plus h hr.1
        · rw [h] at hr; exact absurd hr.1 (by decide)
    · right
      rw [hp1] at hr
      cases B with
      | nil => exact absurd rfl hB
      | cons b B' =>
        simp only [List.cons_append, List.cons.injEq] at hr
        refine ⟨B', by rw [hr.1], ?_⟩
        rw [ht]; omega

/-- analysis of a right shift that passes `atoi` and the padded decoder: the presented
    timestamp is the issued one with at least 4 leading digits removed -/
theorem shiftRight_analysis {v p0 p1 v' : Str} {ts : Nat} {t' : Int}
    (hs : ShiftRight (b64Encode true true v) (natToStr ts) p0 p1)
    (hdec : b64Decode true true p0 = some v') (hat : atoi p1 = some t') :
    0 ≤ t' ∧ 1000 * t' < (ts : Int) := by
  obtain ⟨B, hB, hp0, hD⟩ := hs
  have hDd := natToStr_allDigits ts
  rw [hD] at hDd
  have hBd : AllDigits B := hDd.left
  have hp1d : AllDigits p1 := hDd.right
  have hno : NoCRLF p0 := by
    rw [hp0]; exact (b64Encode_noCRLF true true v).append (allDigits_noCRLF hBd)
  rw [b64Decode_of_noCRLF true true hno] at hdec
  have h0 := b64DecodeCore_pad_length true p0 v' hdec
  have hEl := b64Encode_pad_length_mod4 true v
  rw [hp0, List.length_append] at h0
  have hBl : 4 ≤ B.length := by
    have : 0 < B.length := List.length_pos_iff.mpr hB
    omega
  -- value of the presented timestamp
  have hfirst : ∀ c r, p1 = c :: r → c ≠ '+' ∧ c ≠ '-' := by
    intro c r h
    have := isDigit_iff.mp (hp1d c (by rw [h]; simp))
    constructor <;> (intro hc; subst hc; revert this; decide)
  have ht : p1 ≠ [] ∧ t' = (digitsToNat p1 : Nat) := by
    rcases atoi_some_cases hat with ⟨hne, _, ht⟩ | ⟨r, hr, _⟩ | ⟨r, hr, _⟩
    · exact ⟨hne, ht⟩
    · exact absurd rfl (hfirst _ _ hr).1
    · exact absurd rfl (hfirst _ _ hr).2
  obtain ⟨hne, ht⟩ := ht
  have hp1l : 0 < p1.length := List.length_pos_iff.mpr hne
  have hlt := digitsToNat_lt hp1d
  have hDl : (natToStr ts).length = B.length + p1.length := by rw [hD, List.length_append]
  have htspos : 0 < ts := by
    apply Nat.pos_of_ne_zero
    intro h0'
    rw [h0', natToStr_zero_length] at hDl
    omega
  have hge := natToStr_ge ts htspos
  have hpow : 10 ^ (p1.length + 3) ≤ 10 ^ ((natToStr ts).length - 1) :=
    Nat.pow_le_pow_right (by decide) (by omega)
  have h1000 : 10 ^ (p1.length + 3) = 1000 * 10 ^ p1.length := by
    rw [Nat.pow_add]; omega
  subst ht
  constructor
  · omega
  · have : 1000 * digitsToNat p1 < ts := by omega
    omega

/-- decoding `k` quanta `"0000"` -/
theorem b64DecodeCore_zeros (k : Nat) :
    b64DecodeCore true true (List.replicate (4 * k) '0') = some (zeroBlock k) := by
  induction k with
  | zero => rfl
  | succ k ih =>
    have : 4 * (k + 1) = (4 * k) + 1 + 1 + 1 + 1 := by omega
    rw [this]
    simp only [List.replicate_succ]
    have hv : b64Val true '0' = some 52 := by decide
    simp only [b64DecodeCore, hv, ih, zeroBlock]

/-- value relation in the residual case: the presented value is the issued value with `k`
    trailing triples D3 4D 34 removed -/
theorem zeroShift_value {v p0 v' : Str} {k : Nat} (hv : IsBytes v) (hk : 0 < k)
    (hE : b64Encode true true v = p0 ++ List.replicate (4 * k) '0')
    (hdec : b64Decode true true p0 = some v') : v = v' ++ zeroBlock k := by
  have hno : NoCRLF p0 := fun c hc => b64Encode_noCRLF true true v c (by rw [hE]; simp [hc])
  rw [b64Decode_of_noCRLF true true hno] at hdec
  have hfull := b64DecodeCore_encode true true v
  rw [map_truncByte_of_isBytes hv, hE] at hfull
  have hne : List.replicate (4 * k) '0' ≠ [] := by
    intro h; have := congrArg List.length h; simp at this; omega
  obtain ⟨z, hz, hvz⟩ := b64DecodeCore_pad_append true p0 _ v' v hdec hne hfull
  rw [b64DecodeCore_zeros] at hz
  simp only [Option.some.injEq] at hz
  rw [hvz, hz]

end O2P
