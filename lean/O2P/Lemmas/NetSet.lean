/-
  O2P.Lemmas.NetSet — helper lemmas for `O2P.Props.C15Net`
  (bit-level facts about masks / mapped addresses, invariants of `AddIPNet`).
-/
import O2P.Model.NetSet

namespace O2P

/-! ### bit-level facts -/

theorem bv_ext {w} {x y : BitVec w} (h : ∀ i, x.getLsbD i = y.getLsbD i) : x = y :=
  BitVec.eq_of_getLsbD_eq (fun i _ => h i)

theorem getLsbD_cidrBits (w k i : Nat) :
    (cidrBits w k).getLsbD i = (decide (i < w) && decide (w - k ≤ i)) := by
  simp only [cidrBits, BitVec.getLsbD_shiftLeft, BitVec.getLsbD_allOnes]
  by_cases h1 : i < w <;> by_cases h2 : w - k ≤ i <;> simp [h1, h2] <;> omega

theorem getLsbD_lo32 (b : BitVec 128) (i : Nat) :
    (lo32 b).getLsbD i = (decide (i < 32) && b.getLsbD i) := by
  simp [lo32]

theorem getLsbD_hi96 (b : BitVec 128) (i : Nat) :
    (hi96 b).getLsbD i = (decide (i < 96) && b.getLsbD (32 + i)) := by
  simp [hi96]

theorem getLsbD_v4InV6Prefix (j : Nat) : v4InV6Prefix.getLsbD j = decide (j < 16) := by
  have : (65535 : Nat) = 2 ^ 16 - 1 := by decide
  simp only [v4InV6Prefix, BitVec.getLsbD_ofNat, this, Nat.testBit_two_pow_sub_one]
  by_cases h : j < 16 <;> simp [h]; omega

theorem getLsbD_mapped (a : BitVec 32) (i : Nat) :
    (mapped a).getLsbD i = (a.getLsbD i || (decide (32 ≤ i) && decide (i < 48))) := by
  simp only [mapped, BitVec.getLsbD_setWidth, BitVec.getLsbD_append, getLsbD_v4InV6Prefix]
  by_cases h : i < 32
  · have : ¬ 32 ≤ i := by omega
    have : i < 128 := by omega
    simp [*]
  · have h1 : 32 ≤ i := by omega
    have h2 : a.getLsbD i = false := BitVec.getLsbD_of_ge _ _ h1
    by_cases h3 : i < 48
    · have : i < 128 := by omega
      have : i - 32 < 16 := by omega
      simp [*]
    · have : ¬ (i - 32 < 16) := by omega
      simp [*]

theorem lo32_and (x y : BitVec 128) : lo32 (x &&& y) = lo32 x &&& lo32 y := by
  apply bv_ext; intro i
  simp only [getLsbD_lo32, BitVec.getLsbD_and]
  cases decide (i < 32) <;> simp

theorem hi96_and (x y : BitVec 128) : hi96 (x &&& y) = hi96 x &&& hi96 y := by
  apply bv_ext; intro i
  simp only [getLsbD_hi96, BitVec.getLsbD_and]
  cases decide (i < 96) <;> simp

theorem lo32_mapped (a : BitVec 32) : lo32 (mapped a) = a := by
  apply bv_ext; intro i
  simp only [getLsbD_lo32, getLsbD_mapped]
  by_cases h : i < 32
  · have : ¬ 32 ≤ i := by omega
    simp [*]
  · have h2 : a.getLsbD i = false := BitVec.getLsbD_of_ge _ _ (by omega)
    simp [*]

theorem hi96_mapped (a : BitVec 32) : hi96 (mapped a) = v4InV6Prefix := by
  apply bv_ext; intro i
  simp only [getLsbD_hi96, getLsbD_mapped, getLsbD_v4InV6Prefix]
  have h2 : a.getLsbD (32 + i) = false := BitVec.getLsbD_of_ge _ _ (by omega)
  by_cases h : i < 16
  · have : i < 96 := by omega
    have : 32 + i < 48 := by omega
    simp [*]
  · have : ¬ (32 + i < 48) := by omega
    simp [*]

theorem isMapped_mapped (a : BitVec 32) : isMapped (mapped a) = true := by
  simp [isMapped, hi96_mapped]

/-- a 16-byte address is determined by `ip[:12]` and `ip[12:]` -/
theorem eq_iff_hi_lo (x y : BitVec 128) : x = y ↔ hi96 x = hi96 y ∧ lo32 x = lo32 y := by
  constructor
  · rintro rfl; exact ⟨rfl, rfl⟩
  · rintro ⟨h1, h2⟩
    apply bv_ext; intro i
    by_cases h : i < 32
    · have := congrArg (·.getLsbD i) h2
      simp only [getLsbD_lo32] at this
      simpa [h] using this
    · by_cases h' : i < 128
      · have := congrArg (·.getLsbD (i - 32)) h1
        simp only [getLsbD_hi96] at this
        have e : 32 + (i - 32) = i := by omega
        have l : i - 32 < 96 := by omega
        rw [e] at this
        simpa [l] using this
      · rw [BitVec.getLsbD_of_ge _ _ (by omega), BitVec.getLsbD_of_ge _ _ (by omega)]

theorem mapped_lo32 (b : BitVec 128) (h : isMapped b = true) : mapped (lo32 b) = b := by
  rw [eq_iff_hi_lo, hi96_mapped, lo32_mapped]
  simp [isMapped] at h
  exact ⟨h.symm, rfl⟩

theorem isMapped_iff (b : BitVec 128) : isMapped b = true ↔ ∃ a, b = mapped a :=
  ⟨fun h => ⟨lo32 b, (mapped_lo32 b h).symm⟩, fun ⟨a, h⟩ => h ▸ isMapped_mapped a⟩

/-- `CIDRMask(k,128)[12:] = CIDRMask(k-96,32)` (all zero when `k ≤ 96`) -/
theorem lo32_cidrBits (k : Nat) : lo32 (cidrBits 128 k) = cidrBits 32 (k - 96) := by
  apply bv_ext; intro i
  simp only [getLsbD_lo32, getLsbD_cidrBits]
  by_cases h : i < 32
  · have : i < 128 := by omega
    by_cases h2 : 128 - k ≤ i
    · have : 32 - (k - 96) ≤ i := by omega
      simp [*]
    · have : ¬ 32 - (k - 96) ≤ i := by omega
      simp [*]
  · simp [*]

/-- `allFF(CIDRMask(k,128)[:12])` iff `96 ≤ k` -/
theorem allFF12_cidrBits (k : Nat) : allFF12 (cidrBits 128 k) = decide (96 ≤ k) := by
  by_cases h : 96 ≤ k
  · simp only [allFF12, h, decide_true, beq_iff_eq]
    apply bv_ext; intro i
    simp only [getLsbD_hi96, getLsbD_cidrBits, BitVec.getLsbD_allOnes]
    by_cases h2 : i < 96
    · have : 32 + i < 128 := by omega
      have : 128 - k ≤ 32 + i := by omega
      simp [*]
    · simp [*]
  · simp only [allFF12, h, decide_false, beq_eq_false_iff_ne, ne_eq]
    intro hc
    have := congrArg (·.getLsbD 0) hc
    simp only [getLsbD_hi96, getLsbD_cidrBits, BitVec.getLsbD_allOnes] at this
    have : ¬ 128 - k ≤ 32 + 0 := by omega
    simp_all

/-- a prefix-mask leaves `a` unchanged iff `a` has no bit set beyond the prefix -/
theorem and_cidrBits_eq_self_iff {w : Nat} (a : BitVec w) (k : Nat) :
    a &&& cidrBits w k = a ↔ ∀ i, i < w - k → a.getLsbD i = false := by
  constructor
  · intro h i hi
    have := congrArg (·.getLsbD i) h
    simp only [BitVec.getLsbD_and, getLsbD_cidrBits] at this
    have h2 : ¬ w - k ≤ i := by omega
    simp [h2] at this
    cases hb : a.getLsbD i <;> simp_all
  · intro h
    apply bv_ext; intro i
    simp only [BitVec.getLsbD_and, getLsbD_cidrBits]
    by_cases h1 : i < w
    · by_cases h2 : w - k ≤ i
      · simp [*]
      · simp [h (i := i) (by omega)]
    · simp [BitVec.getLsbD_of_ge a i (by omega)]

/-- two addresses agree under a `/k` mask iff they agree after dropping the `w-k` host bits -/
theorem and_cidrBits_eq_iff_shift {w : Nat} (x a : BitVec w) (k : Nat) :
    x &&& cidrBits w k = a &&& cidrBits w k ↔ x >>> (w - k) = a >>> (w - k) := by
  constructor
  · intro h
    apply bv_ext; intro i
    simp only [BitVec.getLsbD_ushiftRight]
    by_cases hi : w - k + i < w
    · have := congrArg (·.getLsbD (w - k + i)) h
      simp only [BitVec.getLsbD_and, getLsbD_cidrBits] at this
      have h2 : w - k ≤ w - k + i := by omega
      simpa [hi, h2] using this
    · rw [BitVec.getLsbD_of_ge _ _ (by omega), BitVec.getLsbD_of_ge _ _ (by omega)]
  · intro h
    apply bv_ext; intro i
    simp only [BitVec.getLsbD_and, getLsbD_cidrBits]
    by_cases h1 : i < w
    · by_cases h2 : w - k ≤ i
      · have := congrArg (·.getLsbD (i - (w - k))) h
        simp only [BitVec.getLsbD_ushiftRight] at this
        have e : w - k + (i - (w - k)) = i := by omega
        rw [e] at this
        rw [this]
      · simp [h2]
    · simp [h1]

/-- … i.e. iff the two numbers have the same quotient by `2^(w-k)` (same leading `k` bits) -/
theorem and_cidrBits_eq_iff_div {w : Nat} (x a : BitVec w) (k : Nat) :
    x &&& cidrBits w k = a &&& cidrBits w k ↔
      x.toNat / 2 ^ (w - k) = a.toNat / 2 ^ (w - k) := by
  rw [and_cidrBits_eq_iff_shift, BitVec.toNat_eq, BitVec.toNat_ushiftRight,
    BitVec.toNat_ushiftRight, Nat.shiftRight_eq_div_pow, Nat.shiftRight_eq_div_pow]
/-! ### leading ones / `IPMask.Size` -/

theorem leadingOnesFrom_le {w : Nat} (b : BitVec w) (i : Nat) : leadingOnesFrom b i ≤ i := by
  induction i with
  | zero => simp [leadingOnesFrom]
  | succ i ih => unfold leadingOnesFrom; split <;> omega

theorem leadingOnes_le {w : Nat} (b : BitVec w) : leadingOnes b ≤ w := leadingOnesFrom_le b w

theorem leadingOnesFrom_cidrBits (w k i : Nat) (hi : i ≤ w) :
    leadingOnesFrom (cidrBits w k) i = i - (w - k) := by
  induction i with
  | zero => simp [leadingOnesFrom]
  | succ i ih =>
    unfold leadingOnesFrom
    rw [getLsbD_cidrBits, ih (by omega)]
    have : i < w := by omega
    by_cases h2 : w - k ≤ i
    · simp [*]; omega
    · simp [*]; omega

/-- `CIDRMask(k, w).Size() = k` -/
theorem leadingOnes_cidrBits (w k : Nat) (h : k ≤ w) : leadingOnes (cidrBits w k) = k := by
  rw [leadingOnes, leadingOnesFrom_cidrBits w k w (Nat.le_refl _)]; omega

theorem maskOnes_cidrBits (w k : Nat) (h : k ≤ w) : maskOnes (cidrBits w k) = k := by
  simp [maskOnes, leadingOnes_cidrBits w k h]

/-! ### `IP.Mask` case by case -/

@[simp] theorem mask_ip4_m4 (a m : BitVec 32) : (RawIP.ip4 a).mask (.m4 m) = .ip4 (a &&& m) := rfl

@[simp] theorem mask_ip4_m16 (a : BitVec 32) (m : BitVec 128) :
    (RawIP.ip4 a).mask (.m16 m) = if allFF12 m then .ip4 (a &&& lo32 m) else .malformed := by
  simp only [RawIP.mask, maskAdaptMask]
  split <;> rfl

@[simp] theorem mask_ip16_m4 (a : BitVec 128) (m : BitVec 32) :
    (RawIP.ip16 a).mask (.m4 m) = if isMapped a then .ip4 (lo32 a &&& m) else .malformed := by
  simp only [RawIP.mask, maskAdaptMask, maskAdaptIP]
  split <;> rfl

@[simp] theorem mask_ip16_m16 (a m : BitVec 128) :
    (RawIP.ip16 a).mask (.m16 m) = .ip16 (a &&& m) := rfl

@[simp] theorem mask_malformed (m : IPMask) : RawIP.malformed.mask m = .malformed := by
  cases m <;> rfl

/-! ### address families, mask compatibility -/

/-- the slice `getNetMaps` selects (`none`: it panics) -/
def famOf : RawIP → Option Family
  | .ip4 _ => some .v4
  | .ip16 b => if isMapped b then some .v4 else some .v6
  | .malformed => none

theorem getNetMaps_eq (ip : RawIP) :
    NetSet.getNetMaps ip =
      match famOf ip with
      | some f => .ok f
      | none => .panic "IP is neither 4-byte nor 16-byte?" := by
  cases ip with
  | ip4 a => simp [NetSet.getNetMaps, famOf, RawIP.to4]
  | ip16 b => by_cases h : isMapped b <;> simp [NetSet.getNetMaps, famOf, RawIP.to4, RawIP.to16, h]
  | malformed => simp [NetSet.getNetMaps, famOf, RawIP.to4, RawIP.to16]

theorem famOf_isSome {ip : RawIP} (h : ip ≠ .malformed) : ∃ f, famOf ip = some f := by
  cases ip with
  | ip4 a => exact ⟨_, rfl⟩
  | ip16 b => by_cases hm : isMapped b <;> simp [famOf, hm]
  | malformed => exact absurd rfl h

/-- masks that can legitimately sit in the `f`-slice of a `NetSet` -/
def MaskCompat : Family → IPMask → Prop
  | .v4, .m4 b => b = cidrBits 32 (leadingOnes b)
  | .v4, .m16 b => b = cidrBits 128 (leadingOnes b) ∧ allFF12 b = true
  | .v6, .m4 _ => False
  | .v6, .m16 b => b = cidrBits 128 (leadingOnes b)

theorem allFF12_imp_leadingOnes {b : BitVec 128} (hc : b = cidrBits 128 (leadingOnes b))
    (h : allFF12 b = true) : 96 ≤ leadingOnes b := by
  rw [hc, allFF12_cidrBits] at h
  simpa using h

theorem size_of_canonical {w} {b : BitVec w} (hc : b = cidrBits w (leadingOnes b)) :
    maskOnes b = leadingOnes b := by
  simp [maskOnes, ← hc]

/-- within one slice the number of ones determines the mask (so comparing only `ones` in
    `AddIPNet` is sound) -/
theorem MaskCompat.eq_of_size {f : Family} {m1 m2 : IPMask} (h1 : MaskCompat f m1)
    (h2 : MaskCompat f m2) (hs : m1.size = m2.size) : m1 = m2 := by
  cases f <;> cases m1 <;> cases m2 <;> simp only [MaskCompat] at h1 h2
  · rename_i b1 b2
    simp only [IPMask.size, size_of_canonical h1, size_of_canonical h2] at hs
    rw [h1, h2, hs]
  · rename_i b1 b2
    simp only [IPMask.size, size_of_canonical h1, size_of_canonical h2.1] at hs
    have := allFF12_imp_leadingOnes h2.1 h2.2
    have := leadingOnes_le b1
    omega
  · rename_i b1 b2
    simp only [IPMask.size, size_of_canonical h1.1, size_of_canonical h2] at hs
    have := allFF12_imp_leadingOnes h1.1 h1.2
    have := leadingOnes_le b2
    omega
  · rename_i b1 b2
    simp only [IPMask.size, size_of_canonical h1.1, size_of_canonical h2.1] at hs
    rw [h1.1, h2.1, hs]
  · rename_i b1 b2
    simp only [IPMask.size, size_of_canonical h1, size_of_canonical h2] at hs
    rw [h1, h2, hs]

/-- if a canonical 16-byte mask keeps an IPv4-mapped address intact, its first 12 bytes are ff -/
theorem allFF12_of_mapped_fix {a m : BitVec 128} (hc : m = cidrBits 128 (leadingOnes m))
    (hm : isMapped a = true) (hfix : a &&& m = a) : allFF12 m = true := by
  rw [hc, allFF12_cidrBits]
  simp only [decide_eq_true_eq]
  have ha : a.getLsbD 32 = true := by
    have : hi96 a = v4InV6Prefix := by simpa [isMapped] using hm
    have := congrArg (·.getLsbD 0) this
    simp only [getLsbD_hi96, getLsbD_v4InV6Prefix] at this
    simpa using this
  have := congrArg (·.getLsbD 32) hfix
  rw [hc] at this
  simp only [BitVec.getLsbD_and, getLsbD_cidrBits, ha] at this
  simp at this
  omega

theorem isMapped_and_of_allFF12 {b m : BitVec 128} (hb : isMapped b = true)
    (hm : allFF12 m = true) : isMapped (b &&& m) = true := by
  simp only [isMapped, allFF12, beq_iff_eq] at *
  rw [hi96_and, hb, hm, BitVec.and_allOnes]

/-- what `WellFormedNet` says, case by case -/
theorem wellFormedNet_iff (n : IPNet) :
    WellFormedNet n ↔
      match n.ip, n.mask with
      | .ip4 a, .m4 m => m = cidrBits 32 (leadingOnes m) ∧ a &&& m = a
      | .ip4 a, .m16 m => m = cidrBits 128 (leadingOnes m) ∧ allFF12 m = true ∧ a &&& lo32 m = a
      | .ip16 a, .m4 m => m = cidrBits 32 (leadingOnes m) ∧ isMapped a = true ∧ lo32 a &&& m = lo32 a
      | .ip16 a, .m16 m => m = cidrBits 128 (leadingOnes m) ∧ a &&& m = a
      | .malformed, _ => False := by
  obtain ⟨ip, m⟩ := n
  cases ip <;> cases m
  · simp [WellFormedNet, IPMask.canonical, RawIP.equal]
  · rename_i a m
    by_cases h : allFF12 m <;> simp [WellFormedNet, IPMask.canonical, RawIP.equal, h]
  · rename_i a m
    by_cases h : isMapped a <;> simp [WellFormedNet, IPMask.canonical, RawIP.equal, h]
  · simp [WellFormedNet, IPMask.canonical, RawIP.equal]
  · simp [WellFormedNet, RawIP.equal]
  · simp [WellFormedNet, RawIP.equal]

theorem WellFormedNet.famOf_isSome {n : IPNet} (h : WellFormedNet n) : ∃ f, famOf n.ip = some f := by
  apply O2P.famOf_isSome
  intro hc
  rw [wellFormedNet_iff] at h
  simp [hc] at h

theorem WellFormedNet.compat {n : IPNet} (h : WellFormedNet n) {f : Family}
    (hf : famOf n.ip = some f) : MaskCompat f n.mask := by
  rw [wellFormedNet_iff] at h
  obtain ⟨ip, m⟩ := n
  cases ip <;> cases m <;> simp only [famOf] at hf h
  · cases hf; exact h.1
  · cases hf; exact ⟨h.1, h.2.1⟩
  · simp [h.2.1] at hf; cases hf; exact h.1
  · rename_i a m
    by_cases hm : isMapped a
    · simp [hm] at hf; cases hf
      exact ⟨h.1, allFF12_of_mapped_fix h.1 hm h.2⟩
    · simp [hm] at hf; cases hf; exact h.1

/-- `ipNetMap.has` cannot hit its panic when the mask is compatible with the slice -/
theorem mask_ne_malformed {ip : RawIP} {f : Family} {m : IPMask} (hf : famOf ip = some f)
    (hm : MaskCompat f m) : ip.mask m ≠ .malformed := by
  cases ip <;> cases m <;> cases f <;> simp only [famOf, MaskCompat] at hf hm
  all_goals first | (cases hf; done) | skip
  · simp []
  · simp [hm.2]
  · rename_i a m
    by_cases h : isMapped a
    · simp [h]
    · simp [h] at hf
  · simp []
  · simp []
  all_goals (rename_i a m; by_cases h : isMapped a <;> simp [h] at hf)

/-- The per-network heart of the argument: the key comparison performed by `ipNetMap.has`
    for the map holding `n` succeeds exactly when `n.Contains(ip)`. -/
theorem key_match_iff_contains {n : IPNet} (hwf : WellFormedNet n) (ip : RawIP) :
    (famOf n.ip = famOf ip ∧ ip ≠ .malformed ∧ (ip.mask n.mask).key = n.ip.key)
      ↔ n.contains ip = true := by
  rw [wellFormedNet_iff] at hwf
  obtain ⟨nip, m⟩ := n
  cases nip with
  | malformed => simp at hwf
  | ip4 a =>
    cases m with
    | m4 m =>
      obtain ⟨-, hfix⟩ := hwf
      cases ip with
      | malformed => simp [IPNet.contains, RawIP.to4, IPNet.networkNumberAndMask]
      | ip4 x =>
        simp [famOf, RawIP.key, IPNet.contains, IPNet.networkNumberAndMask, RawIP.to4, hfix]
        exact eq_comm
      | ip16 b =>
        by_cases hb : isMapped b
        · simp [famOf, RawIP.key, IPNet.contains, IPNet.networkNumberAndMask, RawIP.to4, hfix, hb]
          exact eq_comm
        · simp [famOf, RawIP.key, IPNet.contains, IPNet.networkNumberAndMask, RawIP.to4, hb]
    | m16 m =>
      obtain ⟨-, hff, hfix⟩ := hwf
      cases ip with
      | malformed => simp [IPNet.contains, RawIP.to4, IPNet.networkNumberAndMask]
      | ip4 x =>
        simp [famOf, RawIP.key, IPNet.contains, IPNet.networkNumberAndMask, RawIP.to4, hfix, hff]
        exact eq_comm
      | ip16 b =>
        by_cases hb : isMapped b
        · have := isMapped_and_of_allFF12 hb hff
          simp [famOf, RawIP.key, IPNet.contains, IPNet.networkNumberAndMask, RawIP.to4, hfix, hb, this, lo32_and]
          exact eq_comm
        · simp [famOf, RawIP.key, IPNet.contains, IPNet.networkNumberAndMask, RawIP.to4, hb]
  | ip16 a =>
    cases m with
    | m4 m =>
      obtain ⟨-, ha, hfix⟩ := hwf
      cases ip with
      | malformed => simp [IPNet.contains, RawIP.to4, IPNet.networkNumberAndMask]
      | ip4 x =>
        simp [famOf, RawIP.key, IPNet.contains, IPNet.networkNumberAndMask, RawIP.to4, hfix, ha]
        exact eq_comm
      | ip16 b =>
        by_cases hb : isMapped b
        · simp [famOf, RawIP.key, IPNet.contains, IPNet.networkNumberAndMask, RawIP.to4, hfix, hb, ha]
          exact eq_comm
        · simp [famOf, RawIP.key, IPNet.contains, IPNet.networkNumberAndMask, RawIP.to4, hb, ha]
    | m16 m =>
      obtain ⟨hc, hfix⟩ := hwf
      by_cases ha : isMapped a
      · have hff := allFF12_of_mapped_fix hc ha hfix
        have hfix' : lo32 a &&& lo32 m = lo32 a := by rw [← lo32_and, hfix]
        cases ip with
        | malformed => simp [IPNet.contains, RawIP.to4, IPNet.networkNumberAndMask]
        | ip4 x =>
          simp [famOf, RawIP.key, IPNet.contains, IPNet.networkNumberAndMask, RawIP.to4, hfix', hff, ha]
          exact eq_comm
        | ip16 b =>
          by_cases hb : isMapped b
          · have := isMapped_and_of_allFF12 hb hff
            simp [famOf, RawIP.key, IPNet.contains, IPNet.networkNumberAndMask, RawIP.to4, hfix', hb, ha, this, lo32_and]
            exact eq_comm
          · simp [famOf, RawIP.key, IPNet.contains, IPNet.networkNumberAndMask, RawIP.to4, hb, ha]
      · cases ip with
        | malformed => simp [IPNet.contains, RawIP.to4, IPNet.networkNumberAndMask]
        | ip4 x =>
          simp [famOf, IPNet.contains, IPNet.networkNumberAndMask, RawIP.to4, ha]
        | ip16 b =>
          by_cases hb : isMapped b
          · simp [famOf, IPNet.contains, IPNet.networkNumberAndMask, RawIP.to4, hb, ha]
          · by_cases hbm : isMapped (b &&& m)
            · simp [famOf, RawIP.key, IPNet.contains, IPNet.networkNumberAndMask, RawIP.to4, hb, ha, hfix, hbm]
              intro hc'
              rw [hc'] at ha
              exact ha hbm
            · simp [famOf, RawIP.key, IPNet.contains, IPNet.networkNumberAndMask, RawIP.to4, hb, ha, hfix, hbm]
              exact eq_comm

/-! ### `AddIPNet` -/

theorem mem_setInsert (k x : RawIP) (ks : List RawIP) : x ∈ setInsert k ks ↔ x = k ∨ x ∈ ks := by
  unfold setInsert
  split
  · rename_i h
    have : k ∈ ks := by simpa using h
    constructor
    · exact Or.inr
    · rintro (rfl | h) <;> assumption
  · simp [or_comm]

theorem setInsert_nodup (k : RawIP) (ks : List RawIP) (h : ks.Nodup) : (setInsert k ks).Nodup := by
  unfold setInsert
  split
  · exact h
  · rename_i hc
    have : k ∉ ks := by simpa using hc
    rw [List.nodup_append]
    refine ⟨h, by simp, ?_⟩
    intro a ha b hb
    simp at hb
    subst hb
    intro e; subst e; exact this ha

theorem findOnes_isSome_of_mem (ones : Nat) (l : List IPNetMap) (m : IPNetMap) (hm : m ∈ l)
    (hs : m.mask.size = ones) : ∃ i, findOnes ones l = some i := by
  induction l with
  | nil => cases hm
  | cons x xs ih =>
    unfold findOnes
    by_cases hx : x.mask.size = ones
    · exact ⟨0, by simp [hx]⟩
    · have : m ∈ xs := by
        rcases List.mem_cons.mp hm with rfl | h
        · exact absurd hs hx
        · exact h
      obtain ⟨i, hi⟩ := ih this
      exact ⟨i + 1, by simp [hx, hi]⟩

/-- effect of `netMap.ips[k] = true` on the map located by the `ones` search -/
theorem insertAt_spec (k : RawIP) (ones : Nat) (l : List IPNetMap) (i : Nat)
    (hfind : findOnes ones l = some i) :
    (∀ m' ∈ insertAt k i l, ∃ m ∈ l, m'.mask = m.mask ∧
        ∀ x ∈ m'.ips, x ∈ m.ips ∨ (x = k ∧ m.mask.size = ones)) ∧
    (∀ m ∈ l, ∃ m' ∈ insertAt k i l, m'.mask = m.mask ∧ ∀ x ∈ m.ips, x ∈ m'.ips) ∧
    (∃ m' ∈ insertAt k i l, m'.mask.size = ones ∧ k ∈ m'.ips) := by
  induction l generalizing i with
  | nil => simp [findOnes] at hfind
  | cons y ys ih =>
    unfold findOnes at hfind
    by_cases hy : y.mask.size = ones
    · simp [hy] at hfind
      subst hfind
      simp only [insertAt]
      refine ⟨?_, ?_, ?_⟩
      · intro m' hm'
        rcases List.mem_cons.mp hm' with rfl | h
        · refine ⟨y, by simp, rfl, ?_⟩
          intro x hx
          rcases (mem_setInsert _ _ _).mp hx with rfl | h
          · exact Or.inr ⟨rfl, hy⟩
          · exact Or.inl h
        · exact ⟨m', by simp [h], rfl, fun x hx => Or.inl hx⟩
      · intro m hm
        rcases List.mem_cons.mp hm with rfl | h
        · exact ⟨⟨m.mask, setInsert k m.ips⟩, List.mem_cons_self, rfl,
            fun x hx => (mem_setInsert _ _ _).mpr (Or.inr hx)⟩
        · exact ⟨m, by simp [h], rfl, fun x hx => hx⟩
      · exact ⟨⟨y.mask, setInsert k y.ips⟩, List.mem_cons_self, hy,
          (mem_setInsert _ _ _).mpr (Or.inl rfl)⟩
    · simp only [hy, if_false, Option.map_eq_some_iff] at hfind
      obtain ⟨j, hj, rfl⟩ := hfind
      obtain ⟨h1, h2, h3⟩ := ih j hj
      simp only [insertAt]
      refine ⟨?_, ?_, ?_⟩
      · intro m' hm'
        rcases List.mem_cons.mp hm' with rfl | h
        · exact ⟨m', by simp, rfl, fun x hx => Or.inl hx⟩
        · obtain ⟨m, hm, r⟩ := h1 m' h
          exact ⟨m, by simp [hm], r⟩
      · intro m hm
        rcases List.mem_cons.mp hm with rfl | h
        · exact ⟨m, by simp, rfl, fun x hx => hx⟩
        · obtain ⟨m', hm', r⟩ := h2 m h
          exact ⟨m', by simp [hm'], r⟩
      · obtain ⟨m', hm', r⟩ := h3
        exact ⟨m', by simp [hm'], r⟩

@[simp] theorem maps_setMaps_same (w : NetSet) (f : Family) (l : List IPNetMap) :
    (w.setMaps f l).maps f = l := by cases f <;> rfl

theorem maps_setMaps_ne (w : NetSet) {f g : Family} (h : g ≠ f) (l : List IPNetMap) :
    (w.setMaps f l).maps g = w.maps g := by
  cases f <;> cases g <;> first | rfl | exact absurd rfl h

@[simp] theorem setMaps_setMaps (w : NetSet) (f : Family) (l l' : List IPNetMap) :
    (w.setMaps f l).setMaps f l' = w.setMaps f l' := by cases f <;> rfl

/-- `AddIPNet` in closed form: it either finds a map with the same number of ones, or appends
    a fresh map and (recursing once) finds that one; then it inserts the key.  In particular
    it never exhausts the recursion budget. -/
theorem addIPNet_spec (w : NetSet) (n : IPNet) (f : Family) (hf : famOf n.ip = some f) :
    ∃ l i, w.addIPNet n = .ok (w.setMaps f (insertAt n.ip.key i l)) ∧
      findOnes n.mask.size l = some i ∧
      (l = w.maps f ∨ l = w.maps f ++ [⟨n.mask, []⟩]) := by
  have hg : NetSet.getNetMaps n.ip = .ok f := by rw [getNetMaps_eq, hf]
  cases hfo : findOnes n.mask.size (w.maps f) with
  | some i =>
    refine ⟨w.maps f, i, ?_, hfo, Or.inl rfl⟩
    simp [NetSet.addIPNet, NetSet.addIPNetFuel, hg, hfo]
  | none =>
    obtain ⟨i, hi⟩ := findOnes_isSome_of_mem n.mask.size (w.maps f ++ [⟨n.mask, []⟩]) ⟨n.mask, []⟩
      (by simp) rfl
    refine ⟨_, i, ?_, hi, Or.inr rfl⟩
    simp [NetSet.addIPNet, NetSet.addIPNetFuel, hg, hfo, hi]

/-- `AddIPNet` panics exactly on an address that is neither 4 nor 16 bytes, and never
    exhausts its recursion budget. -/
theorem addIPNet_malformed (w : NetSet) (n : IPNet) (hf : famOf n.ip = none) :
    ∃ s, w.addIPNet n = .panic s := by
  have hg : NetSet.getNetMaps n.ip = .panic "IP is neither 4-byte nor 16-byte?" := by
    rw [getNetMaps_eq, hf]
  exact ⟨"IP is neither 4-byte nor 16-byte?", by simp only [NetSet.addIPNet, NetSet.addIPNetFuel, hg]⟩

theorem addIPNet_ne_err (w : NetSet) (n : IPNet) (s : String) : w.addIPNet n ≠ .err s := by
  cases hf : famOf n.ip with
  | none => obtain ⟨s', h⟩ := addIPNet_malformed w n hf; rw [h]; intro hc; cases hc
  | some f => obtain ⟨l, i, h, -⟩ := addIPNet_spec w n f hf; rw [h]; intro hc; cases hc

/-- invariant linking a `NetSet` to the list of networks added so far -/
structure NetSet.Inv (w : NetSet) (nets : List IPNet) : Prop where
  compat : ∀ f, ∀ m ∈ w.maps f, MaskCompat f m.mask
  complete : ∀ n ∈ nets, ∃ f, famOf n.ip = some f ∧ ∃ m ∈ w.maps f, m.mask = n.mask ∧ n.ip.key ∈ m.ips
  sound : ∀ f, ∀ m ∈ w.maps f, ∀ k ∈ m.ips,
    ∃ n ∈ nets, famOf n.ip = some f ∧ n.mask = m.mask ∧ n.ip.key = k

theorem NetSet.Inv.empty : NetSet.Inv NetSet.empty [] where
  compat := by intro f m hm; cases f <;> simp [NetSet.empty, NetSet.maps] at hm
  complete := by intro n hn; cases hn
  sound := by intro f m hm; cases f <;> simp [NetSet.empty, NetSet.maps] at hm

theorem NetSet.Inv.step {w : NetSet} {nets : List IPNet} (hinv : w.Inv nets) {n : IPNet}
    (hwf : WellFormedNet n) : ∃ w', w.addIPNet n = .ok w' ∧ w'.Inv (nets ++ [n]) := by
  obtain ⟨f, hf⟩ := hwf.famOf_isSome
  have hnc : MaskCompat f n.mask := hwf.compat hf
  obtain ⟨l, i, hadd, hfind, hl⟩ := addIPNet_spec w n f hf
  obtain ⟨h1, h2, h3⟩ := insertAt_spec n.ip.key n.mask.size l i hfind
  refine ⟨_, hadd, ?_⟩
  -- members of `l`
  have hl_mem : ∀ m ∈ l, m ∈ w.maps f ∨ m = ⟨n.mask, []⟩ := by
    intro m hm
    rcases hl with rfl | rfl
    · exact Or.inl hm
    · simpa using hm
  have hl_sup : ∀ m ∈ w.maps f, m ∈ l := by
    intro m hm
    rcases hl with rfl | rfl
    · exact hm
    · simp [hm]
  have hl_compat : ∀ m ∈ l, MaskCompat f m.mask := by
    intro m hm
    rcases hl_mem m hm with h | rfl
    · exact hinv.compat f m h
    · exact hnc
  have hnew_compat : ∀ m' ∈ insertAt n.ip.key i l, MaskCompat f m'.mask := by
    intro m' hm'
    obtain ⟨m, hm, he, -⟩ := h1 m' hm'
    rw [he]; exact hl_compat m hm
  constructor
  · intro g m hm
    by_cases hg : g = f
    · subst hg
      rw [maps_setMaps_same] at hm
      exact hnew_compat m hm
    · rw [maps_setMaps_ne w hg] at hm
      exact hinv.compat g m hm
  · intro n0 hn0
    rcases List.mem_append.mp hn0 with hold | hnew
    · obtain ⟨g, hg, m, hm, hmask, hkey⟩ := hinv.complete n0 hold
      refine ⟨g, hg, ?_⟩
      by_cases hgf : g = f
      · subst hgf
        rw [maps_setMaps_same]
        obtain ⟨m', hm', he, hsub⟩ := h2 m (hl_sup m hm)
        exact ⟨m', hm', he.trans hmask, hsub _ hkey⟩
      · rw [maps_setMaps_ne w hgf]
        exact ⟨m, hm, hmask, hkey⟩
    · simp at hnew
      subst hnew
      refine ⟨f, hf, ?_⟩
      rw [maps_setMaps_same]
      obtain ⟨m', hm', hsz, hk⟩ := h3
      exact ⟨m', hm', MaskCompat.eq_of_size (hnew_compat m' hm') hnc hsz, hk⟩
  · intro g m' hm' k hk
    by_cases hgf : g = f
    · subst hgf
      rw [maps_setMaps_same] at hm'
      obtain ⟨m, hm, he, hips⟩ := h1 m' hm'
      rcases hips k hk with hin | ⟨rfl, hsz⟩
      · rcases hl_mem m hm with hold | rfl
        · obtain ⟨n0, hn0, r1, r2, r3⟩ := hinv.sound g m hold k hin
          exact ⟨n0, by simp [hn0], r1, r2.trans he.symm, r3⟩
        · cases hin
      · refine ⟨n, by simp, hf, ?_, rfl⟩
        rw [he]
        exact (MaskCompat.eq_of_size (hl_compat m hm) hnc hsz).symm
    · rw [maps_setMaps_ne w hgf] at hm'
      obtain ⟨n0, hn0, r⟩ := hinv.sound g m' hm' k hk
      exact ⟨n0, by simp [hn0], r⟩

theorem NetSet.Inv.addAll {w : NetSet} {done : List IPNet} (hinv : w.Inv done)
    (rest : List IPNet) (hwf : ∀ n ∈ rest, WellFormedNet n) :
    ∃ w', NetSet.addAll w rest = .ok w' ∧ w'.Inv (done ++ rest) := by
  induction rest generalizing w done with
  | nil => exact ⟨w, rfl, by simpa using hinv⟩
  | cons n ns ih =>
    obtain ⟨w1, h1, hinv1⟩ := hinv.step (hwf n (by simp))
    obtain ⟨w2, h2, hinv2⟩ := ih hinv1 (fun x hx => hwf x (by simp [hx]))
    refine ⟨w2, ?_, by simpa using hinv2⟩
    simp [NetSet.addAll, h1, h2]

theorem build_ok (nets : List IPNet) (hwf : ∀ n ∈ nets, WellFormedNet n) :
    ∃ w, NetSet.build nets = .ok w ∧ w.Inv nets := by
  simpa [NetSet.build] using NetSet.Inv.empty.addAll nets hwf

/-! ### `Has` -/

theorem hasLoop_spec (ip : RawIP) (l : List IPNetMap) (h : ∀ m ∈ l, ip.mask m.mask ≠ .malformed) :
    hasLoop ip l = .ok (l.any (fun m => m.ips.contains (ip.mask m.mask).key)) := by
  induction l with
  | nil => rfl
  | cons m ms ih =>
    have hm := h m (by simp)
    have ih' := ih (fun x hx => h x (by simp [hx]))
    have hhas : m.has ip = .ok (m.ips.contains (ip.mask m.mask).key) := by
      unfold IPNetMap.has
      split
      · rename_i heq; exact absurd heq hm
      · rfl
    unfold hasLoop
    rw [hhas, ih', List.any_cons]
    cases hc : m.ips.contains (ip.mask m.mask).key <;> simp

theorem has_of_inv {w : NetSet} {nets : List IPNet} (hinv : w.Inv nets) (ip : RawIP) (f : Family)
    (hf : famOf ip = some f) :
    w.has ip = .ok ((w.maps f).any (fun m => m.ips.contains (ip.mask m.mask).key)) := by
  unfold NetSet.has
  rw [getNetMaps_eq, hf]
  exact hasLoop_spec ip _ (fun m hm => mask_ne_malformed hf (hinv.compat f m hm))

theorem has_malformed (w : NetSet) : ∃ s, w.has .malformed = .panic s :=
  ⟨_, by unfold NetSet.has; rw [getNetMaps_eq]; rfl⟩

/-! ### `ParseIPNet` in closed form -/

theorem parseIPNetSem_cidr4 (a : BitVec 32) (k : Nat) :
    parseIPNetSem (.cidr4 a k) =
      if k ≤ 32 ∧ a &&& cidrBits 32 k = a then some ⟨.ip4 a, .m4 (cidrBits 32 k)⟩ else none := by
  by_cases hk : k ≤ 32
  · by_cases hfix : a &&& cidrBits 32 k = a
    · simp [parseIPNetSem, parseCIDRSem, cidrMask, hk, isMapped_mapped, lo32_mapped, RawIP.equal, hfix]
    · simp [parseIPNetSem, parseCIDRSem, cidrMask, hk, isMapped_mapped, lo32_mapped, RawIP.equal, hfix]
  · simp [parseIPNetSem, parseCIDRSem, cidrMask, hk]

theorem parseIPNetSem_cidr6 (a : BitVec 128) (k : Nat) :
    parseIPNetSem (.cidr6 a k) =
      if k ≤ 128 ∧ a &&& cidrBits 128 k = a then some ⟨.ip16 a, .m16 (cidrBits 128 k)⟩ else none := by
  by_cases hk : k ≤ 128
  · by_cases hfix : a &&& cidrBits 128 k = a
    · simp [parseIPNetSem, parseCIDRSem, cidrMask, hk, RawIP.equal, hfix]
    · simp [parseIPNetSem, parseCIDRSem, cidrMask, hk, RawIP.equal, hfix]
  · simp [parseIPNetSem, parseCIDRSem, cidrMask, hk]

theorem parseIPNetSem_bare (ip : RawIP) :
    parseIPNetSem (.bare ip) =
      match famOf ip with
      | some .v4 => some ⟨ip, .m4 (cidrBits 32 32)⟩
      | some .v6 => some ⟨ip, .m16 (cidrBits 128 128)⟩
      | none => none := by
  cases ip with
  | ip4 a => simp [parseIPNetSem, famOf, RawIP.to4, cidrMask]
  | ip16 b =>
    by_cases h : isMapped b <;> simp [parseIPNetSem, famOf, RawIP.to4, RawIP.to16, cidrMask, h]
  | malformed => simp [parseIPNetSem, famOf, RawIP.to4, RawIP.to16]

theorem cidrBits_full (w : Nat) : cidrBits w w = BitVec.allOnes w := by
  simp [cidrBits]

theorem canonical_cidrBits (w k : Nat) (h : k ≤ w) :
    cidrBits w k = cidrBits w (leadingOnes (cidrBits w k)) := by
  rw [leadingOnes_cidrBits w k h]

theorem and_cidrBits_full {w : Nat} (x : BitVec w) : x &&& cidrBits w w = x := by
  rw [cidrBits_full, BitVec.and_allOnes]

end O2P
