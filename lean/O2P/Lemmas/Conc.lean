/-
  O2P.Lemmas.Conc — the inductive invariant of the refresh-under-lock model
  (`O2P.Model.Conc`, variant `.real`) and its preservation by every step.
-/
import O2P.Model.Conc

namespace O2P.Conc

/-- Program points inside the critical section (lock held). -/
def inCS : PC → Bool
  | .reload | .recheck | .refresh | .save | .validate | .release _ => true
  | _ => false

/-- `s` is the refreshed session: fresh, carrying the IdP's current token generation,
and exactly one refresh has happened. -/
def Good (idp : IdP) (s : Sess) : Prop :=
  s.fresh = true ∧ s.gen = idp.cur ∧ idp.calls = 1

/-- Per-thread part of the invariant. -/
def ThreadOK (idp : IdP) (store : Option Sess) (th : Thread) : Prop :=
  match th.pc with
  | .load | .obtain | .reload => True
  | .check => th.sess.fresh = true → Good idp th.sess
  | .recheck => store = some th.sess
  | .refresh => store = some th.sess ∧ th.sess.fresh = false
  | .save | .validate => Good idp th.sess
  | .release ok => ok = true ∧ Good idp th.sess
  | .done r => r = .served ∧ Good idp th.sess
  | .relEarly | .clear => False

/-- The inductive invariant (`g` = token generation of the initial stale session). -/
structure Inv (g : Nat) (c : Config) : Prop where
  store  : ∃ st, c.store = some st ∧ (st.fresh = true → Good c.idp st) ∧
             (st.fresh = false →
               (c.idp.calls = 0 ∧ st.gen = c.idp.cur) ∨
               ∃ h, c.lock = some h ∧ (c.threads h).pc = .save)
  calls  : c.idp.calls ≤ 1
  stale  : c.idp.staleCalls = 0
  cur    : c.idp.cur = g + c.idp.calls
  lockCS : ∀ t, c.lock = some t ↔ inCS (c.threads t).pc = true
  thr    : ∀ t, ThreadOK c.idp c.store (c.threads t)
  absent : ∀ t, c.n ≤ t → (c.threads t).pc = .load

@[simp] theorem setT_threads (c : Config) (tid : Nat) (th : Thread) (t : Nat) :
    (c.setT tid th).threads t = if t = tid then th else c.threads t := rfl
@[simp] theorem setT_store (c : Config) (tid : Nat) (th : Thread) :
    (c.setT tid th).store = c.store := rfl
@[simp] theorem setT_lock (c : Config) (tid : Nat) (th : Thread) :
    (c.setT tid th).lock = c.lock := rfl
@[simp] theorem setT_idp (c : Config) (tid : Nat) (th : Thread) :
    (c.setT tid th).idp = c.idp := rfl
@[simp] theorem setT_n (c : Config) (tid : Nat) (th : Thread) :
    (c.setT tid th).n = c.n := rfl

theorem inv_init (n g : Nat) : Inv g (init n g) := by
  refine ⟨⟨⟨false, g⟩, rfl, by simp, by simp [init]⟩, by simp [init], rfl, by simp [init], ?_, ?_, ?_⟩
  · intro t; simp [init, inCS]
  · intro t; simp [init, ThreadOK]
  · intro t _; rfl

set_option linter.unusedSimpArgs false in
theorem inv_stepThread (g : Nat) (c : Config) (tid : Nat) (hn : tid < c.n) (h : Inv g c) :
    Inv g (stepThread .real c tid) := by
  obtain ⟨⟨st, hst, hfr, hsl⟩, hcalls, hstale, hcur, hlock, hthr, habs⟩ := h
  have hme := hthr tid
  have hlme := hlock tid
  unfold stepThread
  cases hpc : (c.threads tid).pc <;> simp only [hpc, hst, ThreadOK, inCS] at hme hlme ⊢
  case done => exact ⟨⟨st, hst, hfr, hsl⟩, hcalls, hstale, hcur, hlock, hthr, habs⟩
  case save =>
    refine ⟨⟨(c.threads tid).sess, ?_, ?_, ?_⟩, ?_, ?_, ?_, ?_, ?_, ?_⟩ <;>
      (try simp only [setT_idp, setT_lock, setT_store, setT_threads, setT_n]) <;>
      grind [inCS, ThreadOK, Good, relLock]
  all_goals
    (repeat' split) <;>
    refine ⟨⟨st, ?_, ?_, ?_⟩, ?_, ?_, ?_, ?_, ?_, ?_⟩ <;>
      (try simp only [setT_idp, setT_lock, setT_store, setT_threads, setT_n]) <;>
      grind [inCS, ThreadOK, Good, relLock]

theorem inv_step (g : Nat) (c : Config) (tid : Nat) (h : Inv g c) : Inv g (step .real c tid) := by
  unfold step
  split
  · exact inv_stepThread g c tid ‹_› h
  · exact h

theorem inv_run (g : Nat) (c : Config) (sched : List Nat) (h : Inv g c) :
    Inv g (run .real c sched) := by
  induction sched generalizing c with
  | nil => exact h
  | cons t ts ih => exact ih _ (inv_step g c t h)

theorem run_append (v : Variant) (c : Config) (s1 s2 : List Nat) :
    run v c (s1 ++ s2) = run v (run v c s1) s2 := by
  simp [run, List.foldl_append]

theorem step_n (v : Variant) (c : Config) (t : Nat) : (step v c t).n = c.n := by
  unfold step
  split
  · unfold stepThread
    cases hpc : (c.threads t).pc <;> simp only [hpc] <;> (repeat' split) <;> rfl
  · rfl

theorem run_n (v : Variant) (c : Config) (sched : List Nat) : (run v c sched).n = c.n := by
  induction sched generalizing c with
  | nil => rfl
  | cons a as ih =>
    show (run v (step v c a) as).n = c.n
    rw [ih, step_n]

/-! ### Progress -/

/-- Upper bound on the number of steps thread needs from a program point. -/
def rank : PC → Nat
  | .load => 10 | .check => 9 | .obtain => 8 | .reload => 7 | .recheck => 6 | .refresh => 5
  | .relEarly => 4 | .save => 4 | .validate => 3 | .release _ => 2 | .clear => 1 | .done _ => 0

set_option linter.unusedSimpArgs false in
/-- If the lock is free or held by `tid` itself, a step of `tid` makes progress, keeps that
condition, and does not touch other threads. -/
theorem step_progress (g : Nat) (c : Config) (tid : Nat) (h : Inv g c) (hn : tid < c.n)
    (hl : c.lock = none ∨ c.lock = some tid) :
    (rank ((step .real c tid).threads tid).pc < rank (c.threads tid).pc ∨
        rank (c.threads tid).pc = 0) ∧
    ((step .real c tid).lock = none ∨ (step .real c tid).lock = some tid) ∧
    (step .real c tid).n = c.n ∧
    ∀ t, t ≠ tid → (step .real c tid).threads t = c.threads t := by
  obtain ⟨⟨st, hst, hfr, hsl⟩, hcalls, hstale, hcur, hlock, hthr, habs⟩ := h
  have hme := hthr tid
  have hlme := hlock tid
  unfold step
  rw [if_pos hn]
  unfold stepThread
  cases hpc : (c.threads tid).pc <;> simp only [hpc, hst, ThreadOK, inCS] at hme hlme ⊢
  all_goals
    (repeat' split) <;>
    refine ⟨?_, ?_, ?_, ?_⟩ <;>
      (try simp only [setT_idp, setT_lock, setT_store, setT_threads, setT_n]) <;>
      grind [inCS, rank, relLock]

end O2P.Conc
