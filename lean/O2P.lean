-- This module serves as the root of the `O2P` library.
-- Import modules here that should be built as part of the library.
import O2P.Basic
