import O2P.Model.Proto
import O2P.Model.Sha256
import O2P.Model.Routes
/-!
  Line-protocol driver: reads one operation per line on stdin, writes the model's canonical
  answer per line on stdout.  Compiled as a core-only `lean_exe`.
-/
open O2P O2P.Proto

/-- regex oracle table: the harness ships the real `regexp` verdicts (pattern, subject ↦ bool)
    so that the regex engine stays a parameter of the model. Encoded as a list of
    `pattern` `subject` `0/1` triples flattened in one field: hex,hex,b;hex,hex,b;… -/
def parseRx (f : String) : Option (List (Str × Str × Bool)) :=
  if f == "-" then some [] else
  (f.splitOn ";").mapM (fun t => match t.splitOn "," with
    | [p, s, v] => do pure ((← str p), (← str s), (← Proto.bool v))
    | _ => none)

def rxOf (tbl : List (Str × Str × Bool)) (p s : Str) : Bool :=
  match tbl.find? (fun t => t.1 == p && t.2.1 == s) with
  | some t => t.2.2
  | none => false

def opRoutes (fs : List String) : Option String :=
  match fs with
  | [legacy, rules, skipPre, trusted, method, path, rx] => do
    let legacy ← strs legacy
    let rules ← strs rules
    let skipPre ← Proto.bool skipPre
    let trusted ← Proto.bool trusted
    let method ← str method
    let path ← str path
    let tbl ← parseRx rx
    let routes := buildRoutes legacy rules
    let parsed := ";".intercalate (routes.map (fun r => s!"{hex r.method},{b r.negate},{hex r.pattern}"))
    pure s!"{b (isAllowedRequest (rxOf tbl) skipPre routes trusted method path)} {parsed}"
  | _ => none

def opSha (fs : List String) : Option String :=
  match fs with
  | [m] => do pure (hex (Sha.sha256 (← str m)))
  | _ => none
def opHmac (fs : List String) : Option String :=
  match fs with
  | [k, m] => do pure (hex (Sha.hmac (← str k) (← str m)))
  | _ => none

def dispatch (line : String) : String :=
  match line.splitOn "\t" with
  | [] => "bad-op"
  | op :: fs =>
    let r := match op with
      | "routes" => opRoutes fs
      | "sha256" => opSha fs
      | "hmac" => opHmac fs
      | _ => none
    r.getD "bad-op"

partial def loop (h : IO.FS.Stream) (out : IO.FS.Stream) : IO Unit := do
  let line ← h.getLine
  if line.isEmpty then return ()
  let l := if line.back == '\n' then line.dropRight 1 else line
  out.putStrLn (dispatch l)
  loop h out

def main : IO Unit := do
  let out ← IO.getStdout
  loop (← IO.getStdin) out
  out.flush
