import O2P.Basic
def main : IO Unit := IO.println "hi"
