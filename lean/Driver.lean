import O2P.Drv.Common
import O2P.Drv.Routes
import O2P.Drv.Serve
import O2P.Drv.Upstream
import O2P.Drv.Headers
import O2P.Drv.Authz
import O2P.Drv.Redirect
import O2P.Drv.Signed
import O2P.Drv.Cookies
import O2P.Drv.Conc
import O2P.Drv.CookieJar
import O2P.Drv.NetSet
import O2P.Drv.Token
/-!
  Line-protocol driver: reads one operation per line on stdin, writes the model's canonical
  answer per line on stdout.  Compiled as a core-only `lean_exe`.  Each `O2P/Drv/<X>.lean`
  contributes a table of named operations; unknown or unparseable operations answer `bad-op`.
-/
open O2P O2P.Drv

def allOps : List (String × Op) :=
  routesOps ++ serveOps ++ upstreamOps ++ headersOps ++ authzOps ++ redirectOps ++ signedOps ++ cookiesOps ++ concOps ++ cookieJarOps ++ netsetOps ++ tokenOps

def dispatch (line : String) : String :=
  match line.splitOn "\t" with
  | [] => "bad-op"
  | op :: fs =>
    match allOps.find? (fun o => o.1 == op) with
    | some o => (o.2 fs).getD "bad-op"
    | none => "bad-op"

partial def loop (h : IO.FS.Stream) (out : IO.FS.Stream) : IO Unit := do
  let line ← h.getLine
  if line.isEmpty then return ()
  let l := if line.endsWith "\n" then String.ofList line.toList.dropLast else line
  out.putStrLn (dispatch l)
  loop h out

def main : IO Unit := do
  let out ← IO.getStdout
  loop (← IO.getStdin) out
  out.flush
