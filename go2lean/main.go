// go2lean — translate selected pure functions of the repository under verification into Lean 4.
//
// usage: go2lean <repo> <out.lean>
//
// Each function listed in `targets` is parsed with go/ast and rewritten, statement by statement,
// into a Lean `do` block over the primitives of O2P/Go/Prim.lean (monad `Go.M = Except String`:
// an out-of-range index or slice is a `throw`).  The output, O2P/Gen/Tr.lean, is REGENERATED on
// every check; O2P/Props/Tr*.lean proves every regenerated definition equal to the hand-written
// model function that the property theorems are about.  A source change therefore changes the
// definition the equivalence theorem is about: either the proof still goes through (the rewrite
// was harmless for every input) or a proof obligation breaks.
//
// A construct outside the supported subset makes the function "untranslatable": its definition
// becomes `throw "untranslatable: …"`, which no equivalence proof survives.
//
// Supported subset (documented, deliberately small): parameters / results of type string, []byte,
// int, bool, byte, error, []string, ...string, time.Time, time.Duration, *http.Cookie, *url.URL,
// *http.Request (only through the externals of Go.Ext), func() hash.Hash (ignored);
// `:=`, `=`, `+=`, `++`, `var`, `if` (with init), `switch` on a value with returning/plain cases,
// `for … range` over a list or string (value variable only), `return`, `continue`, calls of the
// standard-library functions in `stdCalls`, method calls in `methodCalls`, calls of other
// translated functions, indexing, slicing, short-circuit `&&` / `||`, comparisons, `+ - *`.
package main

import (
	"fmt"
	"go/ast"
	"go/parser"
	"go/token"
	"os"
	"path/filepath"
	"sort"
	"strconv"
	"strings"
)

type target struct {
	file string // relative to the repo root
	name string // function name
	recv string // receiver type name ("" for plain functions)
	// for methods: the receiver's fields the function reads, "field:kind,…" — each becomes a parameter
	recvFields string
}

var targets = []target{
	{"pkg/util/util.go", "validOptionalPort", "", ""},
	{"pkg/util/util.go", "SplitHostPort", "", ""},
	{"pkg/util/util.go", "isHostnameAllowed", "", ""},
	{"pkg/util/util.go", "IsEndpointAllowed", "", ""},
	{"validator.go", "isEmailValidWithDomains", "", ""},
	{"pkg/sessions/cookie/session_store.go", "splitCookieName", "", ""},
	{"pkg/sessions/cookie/session_store.go", "isSessionCookieName", "", ""},
	{"pkg/encryption/utils.go", "SecretBytes", "", ""},
	{"pkg/encryption/utils.go", "cookieSignature", "", ""},
	{"pkg/encryption/utils.go", "checkHmac", "", ""},
	{"pkg/encryption/utils.go", "checkSignature", "", ""},
	{"pkg/encryption/utils.go", "Validate", "", ""},
	{"pkg/encryption/utils.go", "SignedValue", "", ""},
	{"pkg/encryption/utils.go", "GenerateCodeChallenge", "", ""},
	{"pkg/requests/util/util.go", "IsProxied", "", ""},
	{"pkg/requests/util/util.go", "GetRequestProto", "", ""},
	{"pkg/requests/util/util.go", "GetRequestHost", "", ""},
	{"pkg/requests/util/util.go", "GetRequestURI", "", ""},
	{"pkg/requests/util/util.go", "IsForwardedRequest", "", ""},
	{"pkg/cookies/cookies.go", "GetCookieDomain", "", ""},
	{"pkg/cookies/cookies.go", "ParseSameSite", "", ""},
	{"pkg/cookies/cookies.go", "MakeCookieFromOptions", "", ""},
	{"pkg/requests/util/util.go", "GetRequestPath", "", ""},
	{"oauthproxy.go", "isAllowedMethod", "", ""},
	{"oauthproxy.go", "isAllowedPath", "", ""},
	{"oauthproxy.go", "isAllowedRoute", "OAuthProxy", "allowedRoutes:routes"},
	{"pkg/app/redirect/validator.go", "IsValidRedirect", "validator", "allowedDomains:strs"},
	{"pkg/apis/sessions/session_state.go", "IsExpired", "SessionState", "ExpiresOn:opttime"},
	{"pkg/apis/sessions/session_state.go", "Age", "SessionState", "CreatedAt:opttime"},
	{"oauthproxy.go", "encodeState", "", ""},
	{"oauthproxy.go", "decodeState", "", ""},
	{"pkg/encryption/nonce.go", "HashNonce", "", ""},
	{"pkg/encryption/nonce.go", "CheckNonce", "", ""},
	{"oauthproxy.go", "extractAllowedEntities", "", ""},
	{"oauthproxy.go", "checkAllowedGroups", "", ""},
	{"oauthproxy.go", "checkAllowedEmails", "", ""},
	{"pkg/ip/realclientip.go", "GetRealClientIP", "xForwardedForClientIPParser", "header:str"},
	{"pkg/ip/realclientip.go", "getRemoteIP", "", ""},
	{"pkg/sessions/persistence/ticket.go", "encodeTicket", "ticket", "id:str,secret:str"},
	{"pkg/sessions/persistence/ticket.go", "decodeTicketID", "", ""},
	{"pkg/sessions/persistence/ticket.go", "decodeTicketSecret", "", ""},
	{"pkg/app/redirect/director.go", "validateRedirect", "appDirector", "validator:strs"},
	{"pkg/app/redirect/director.go", "hasProxyPrefix", "appDirector", "proxyPrefix:str"},
	{"pkg/app/redirect/getters.go", "getXForwardedHeadersRedirect", "appDirector", "validator:strs,proxyPrefix:str"},
	{"pkg/app/redirect/getters.go", "getURIRedirect", "appDirector", "validator:strs,proxyPrefix:str"},
	{"pkg/cookies/csrf.go", "HashOAuthState", "csrf", "OAuthState:optstr"},
	{"pkg/cookies/csrf.go", "HashOIDCNonce", "csrf", "OIDCNonce:optstr"},
	{"pkg/cookies/csrf.go", "CheckOAuthState", "csrf", "OAuthState:optstr"},
	{"pkg/cookies/csrf.go", "CheckOIDCNonce", "csrf", "OIDCNonce:optstr"},
	{"pkg/cookies/csrf.go", "ExtractStateSubstring", "", ""},
	{"pkg/cookies/csrf.go", "csrfCookieName", "", ""},
	{"pkg/cookies/csrf.go", "GenerateCookieName", "", ""},
}

// kinds
const (
	kStr     = "str"
	kInt     = "int"
	kBool    = "bool"
	kChar    = "char"
	kErr     = "err"
	kTime    = "time"
	kStrs    = "strs"
	kInts    = "ints"
	kCookie  = "cookie"
	kURL     = "url"
	kReq     = "req"
	kUnit    = "unit"
	kHmac    = "hmac"
	kScope   = "scopeptr"
	kRoute   = "route"
	kRoutes  = "routes"
	kRegex   = "regex"
	kCkOpts  = "cookieopts"
	kHCookie = "httpcookie"
	kIP      = "ip"
	kHeader  = "header"
	kSet     = "set"
	kQuery   = "queryvals"
	kSess    = "session"
	kOptStr  = "optstr"
	kSha     = "sha"
	kOptTime = "opttime"
	kAny     = "?"
)

func leanOfKind(k string) string {
	switch k {
	case kStr:
		return "Str"
	case kInt:
		return "Int"
	case kBool:
		return "Bool"
	case kChar:
		return "Char"
	case kErr:
		return "Go.Err"
	case kTime:
		return "Go.Time"
	case kStrs:
		return "List Str"
	case kInts:
		return "List Int"
	case kCookie:
		return "Go.Cookie"
	case kURL:
		return "Go.URL"
	case kReq:
		return "Go.Req"
	case kUnit:
		return "Unit"
	case kHmac:
		return "Go.Hmac"
	case kScope:
		return "Option Go.Scope"
	case kRoute:
		return "Go.Route"
	case kRoutes:
		return "List Go.Route"
	case kRegex:
		return "Str"
	case kCkOpts:
		return "Go.CookieOpts"
	case kHCookie:
		return "Go.HttpCookie"
	case kIP:
		return "Option Go.IP"
	case kHeader:
		return "Str → Str"
	case kSet:
		return "List Str"
	case kQuery:
		return "Str → List Str"
	case kSess:
		return "Go.Session"
	case kOptStr:
		return "Option Str"
	case kSha:
		return "Go.Sha"
	case kOptTime:
		return "Option Int"
	}
	panic("no Lean type for kind " + k)
}

func zeroOfKind(k string) string {
	switch k {
	case kStr:
		return "([] : Str)"
	case kInt:
		return "(0 : Int)"
	case kBool:
		return "false"
	case kErr:
		return "(none : Go.Err)"
	case kTime:
		return "Go.timeZero"
	case kStrs:
		return "([] : List Str)"
	case kIP:
		return "(none : Option Go.IP)"
	}
	panic("no zero value for kind " + k)
}

type untranslatable string

func fail(format string, a ...interface{}) { panic(untranslatable(fmt.Sprintf(format, a...))) }

func exprString(e ast.Expr) string {
	switch x := e.(type) {
	case *ast.Ident:
		return x.Name
	case *ast.SelectorExpr:
		return exprString(x.X) + "." + x.Sel.Name
	case *ast.StarExpr:
		return "*" + exprString(x.X)
	case *ast.ArrayType:
		if x.Len == nil {
			return "[]" + exprString(x.Elt)
		}
		return "[n]" + exprString(x.Elt)
	case *ast.Ellipsis:
		return "..." + exprString(x.Elt)
	case *ast.FuncType:
		return "func"
	case *ast.MapType:
		return "map[" + exprString(x.Key) + "]" + exprString(x.Value)
	case *ast.StructType:
		return "struct{}"
	case *ast.CompositeLit:
		return exprString(x.Type) + "{}"
	case *ast.CallExpr:
		return exprString(x.Fun) + "()"
	case *ast.BasicLit:
		return x.Value
	}
	return fmt.Sprintf("%T", e)
}

func kindOfType(t ast.Expr) string {
	switch exprString(t) {
	case "string", "[]byte":
		return kStr
	case "int", "int64", "time.Duration":
		return kInt
	case "bool":
		return kBool
	case "byte", "rune":
		return kChar
	case "error":
		return kErr
	case "time.Time":
		return kTime
	case "[]string", "...string":
		return kStrs
	case "[]int":
		return kInts
	case "*http.Cookie":
		return kCookie
	case "*url.URL":
		return kURL
	case "*http.Request":
		return kReq
	case "allowedRoute":
		return kRoute
	case "*options.Cookie":
		return kCkOpts
	case "http.SameSite":
		return kInt
	case "net.IP":
		return kIP
	case "http.Header":
		return kHeader
	case "map[string]struct{}":
		return kSet
	case "*sessionsapi.SessionState":
		return kSess
	case "func":
		return kUnit
	}
	fail("unsupported type %s", exprString(t))
	return ""
}

type sig struct {
	params   []string // kinds
	variadic bool
	results  []string // kinds
}

type tr struct {
	sigs   map[string]sig    // translated functions
	consts map[string]string // package-level string/int constants: name -> Lean term
	ckinds map[string]string
	// per function
	kinds        map[string]string
	named        []string // named results
	results      []string
	loopRet      int                 // >0 inside a forRange body
	rawOpt       bool                // pass an optional byte slice on as it is (argument of a translated function that takes one)
	recvName     string              // the receiver's name in the function being translated
	methodFields map[string][]string // translated methods -> the receiver fields they take, in order
	breakFlag    []string            // per enclosing loop: the carried flag that encodes `break` ("" if the loop has none)
	recvFields   map[string]string   // "recv.field" -> kind
	mutable      map[string]bool     // variables that are assigned after their declaration
	loopSt       []string            // "" for a stateless loop body, else the Lean tuple of the loop-carried variables
	tmp          int
	warnings     []string
}

var leanKeywords = map[string]bool{"end": true, "at": true, "from": true, "have": true, "show": true, "then": true, "else": true,
	"do": true, "let": true, "fun": true, "match": true, "with": true, "in": true, "open": true, "where": true, "by": true,
	"instance": true, "class": true, "structure": true, "theorem": true, "def": true, "namespace": true, "section": true,
	"variable": true, "universe": true, "macro": true, "syntax": true, "prefix": true, "infix": true, "notation": true, "deriving": true,
	"mut": true, "for": true, "if": true, "return": true, "unless": true, "try": true, "catch": true, "finally": true, "using": true,
	"exact": true, "matches": true, "from_": true, "Type": true, "Prop": true, "Sort": true, "nil": true, "some": true, "none": true, "E": true}

func ident(n string) string {
	if leanKeywords[n] {
		return n + "_"
	}
	return n
}

func strLit(s string) string {
	if s == "" {
		return "([] : Str)"
	}
	var parts []string
	for _, b := range []byte(s) {
		switch {
		case b == '\'':
			parts = append(parts, `'\''`)
		case b == '\\':
			parts = append(parts, `'\\'`)
		case b >= 32 && b < 127:
			parts = append(parts, "'"+string(rune(b))+"'")
		default:
			parts = append(parts, fmt.Sprintf("(Char.ofNat %d)", b))
		}
	}
	return "[" + strings.Join(parts, ", ") + "]"
}

func impure(code string) bool { return strings.Contains(code, "(←") }

// expression -> (Lean term, kind)
func (t *tr) expr(e ast.Expr) (string, string) {
	switch x := e.(type) {
	case *ast.ParenExpr:
		c, k := t.expr(x.X)
		return "(" + c + ")", k
	case *ast.Ident:
		switch x.Name {
		case "nil":
			return "none", kErr
		case "true", "false":
			return x.Name, kBool
		}
		if k, ok := t.kinds[x.Name]; ok {
			if k == kOptStr && !t.rawOpt {
				return "(" + ident(x.Name) + ".getD [])", kStr // a nil slice used as bytes is the empty slice
			}
			return ident(x.Name), k
		}
		if c, ok := t.consts[x.Name]; ok {
			return c, t.ckinds[x.Name]
		}
		fail("unknown identifier %s", x.Name)
	case *ast.BasicLit:
		switch x.Kind {
		case token.INT:
			return "(" + x.Value + " : Int)", kInt
		case token.STRING:
			s, err := strconv.Unquote(x.Value)
			if err != nil {
				fail("string literal %s", x.Value)
			}
			return strLit(s), kStr
		case token.CHAR:
			s, err := strconv.Unquote(x.Value)
			if err != nil || len(s) != 1 {
				fail("char literal %s", x.Value)
			}
			l := strLit(s)
			return l[1 : len(l)-1], kChar
		}
		fail("literal %s", x.Value)
	case *ast.StarExpr:
		c, k := t.expr(x.X)
		if k == kOptTime {
			return "(← Go.derefTime " + atom(c) + ")", kTime
		}
		fail("dereference of a value of kind %s", k)
	case *ast.UnaryExpr:
		if cl, ok := x.X.(*ast.CompositeLit); ok && x.Op == token.AND && exprString(cl.Type) == "http.Cookie" {
			allowed := map[string]bool{"Name": true, "Value": true, "Path": true, "Domain": true, "HttpOnly": true, "Secure": true, "SameSite": true, "MaxAge": true}
			var fs []string
			for _, e := range cl.Elts {
				kv, ok := e.(*ast.KeyValueExpr)
				if !ok {
					fail("positional field in http.Cookie literal")
				}
				name := exprString(kv.Key)
				if !allowed[name] {
					fail("http.Cookie field %s", name)
				}
				c, _ := t.expr(kv.Value)
				fs = append(fs, name+" := "+c)
			}
			return "({ " + strings.Join(fs, ", ") + " } : Go.HttpCookie)", kHCookie
		}
		c, k := t.expr(x.X)
		switch x.Op {
		case token.NOT:
			return "(!" + c + ")", kBool
		case token.SUB:
			return "(-" + c + ")", k
		}
		fail("unary operator %s", x.Op)
	case *ast.BinaryExpr:
		return t.binary(x)
	case *ast.IndexExpr:
		c, k := t.expr(x.X)
		i, _ := t.expr(x.Index)
		if k == kQuery {
			return "(" + c + " " + atom(i) + ")", kStrs // a missing key is the nil slice
		}
		ek := kAny
		switch k {
		case kStr:
			ek = kChar
		case kStrs:
			ek = kStr
		case kInts:
			ek = kInt
		}
		return "(← Go.idx " + atom(c) + " " + atom(i) + ")", ek
	case *ast.SliceExpr:
		c, k := t.expr(x.X)
		if x.Slice3 {
			fail("3-index slice")
		}
		switch {
		case x.Low == nil && x.High == nil:
			return c, k
		case x.High == nil:
			lo, _ := t.expr(x.Low)
			return "(← Go.sliceFrom " + atom(c) + " " + atom(lo) + ")", k
		case x.Low == nil:
			hi, _ := t.expr(x.High)
			return "(← Go.sliceTo " + atom(c) + " " + atom(hi) + ")", k
		default:
			lo, _ := t.expr(x.Low)
			hi, _ := t.expr(x.High)
			return "(← Go.slice " + atom(c) + " " + atom(lo) + " " + atom(hi) + ")", k
		}
	case *ast.SelectorExpr:
		full := exprString(x)
		switch full {
		case "time.Minute":
			return "Go.timeMinute", kInt
		case "time.Second":
			return "Go.timeSecond", kInt
		case "http.SameSiteDefaultMode":
			return "(1 : Int)", kInt
		case "http.SameSiteLaxMode":
			return "(2 : Int)", kInt
		case "http.SameSiteStrictMode":
			return "(3 : Int)", kInt
		case "http.SameSiteNoneMode":
			return "(4 : Int)", kInt
		case "time.Hour":
			return "(Go.timeMinute * 60)", kInt
		}
		if id, ok := x.X.(*ast.Ident); ok {
			if k, ok := t.recvFields[id.Name+"."+x.Sel.Name]; ok {
				if k == kOptStr && !t.rawOpt {
					return "(" + ident(id.Name+"_"+x.Sel.Name) + ".getD [])", kStr
				}
				return ident(id.Name + "_" + x.Sel.Name), k
			}
			if k, ok := t.kinds[id.Name]; ok {
				switch k + "." + x.Sel.Name {
				case "cookie.Name", "cookie.Value":
					return ident(id.Name) + "." + x.Sel.Name, kStr
				case "req.Host":
					return ident(id.Name) + ".host", kStr
				case "req.Method":
					return ident(id.Name) + ".method", kStr
				case "req.RemoteAddr":
					return ident(id.Name) + ".remoteAddr", kStr
				case "session.Email":
					return ident(id.Name) + ".Email", kStr
				case "session.Groups":
					return ident(id.Name) + ".Groups", kStrs
				case "route.method":
					return ident(id.Name) + ".method", kStr
				case "route.negate":
					return ident(id.Name) + ".negate", kBool
				case "route.pathRegex":
					return ident(id.Name) + ".pathRegex", kRegex
				case "cookieopts.Name", "cookieopts.Path", "cookieopts.SameSite":
					return ident(id.Name) + "." + x.Sel.Name, kStr
				case "cookieopts.Domains":
					return ident(id.Name) + ".Domains", kStrs
				case "cookieopts.HTTPOnly", "cookieopts.Secure":
					return ident(id.Name) + "." + x.Sel.Name, kBool
				case "cookieopts.CSRFPerRequest":
					return ident(id.Name) + ".CSRFPerRequest", kBool
				case "url.Path":
					return ident(id.Name) + ".path", kStr
				case "scopeptr.ReverseProxy":
					// a field read through a pointer: nil is a panic
					return "(← Go.derefScope " + ident(id.Name) + ").ReverseProxy", kBool
				}
			}
		}
		if inner, ok := x.X.(*ast.SelectorExpr); ok {
			if id, ok := inner.X.(*ast.Ident); ok && t.kinds[id.Name] == kReq {
				if inner.Sel.Name == "URL" && x.Sel.Name == "Scheme" {
					return ident(id.Name) + ".urlScheme", kStr
				}
			}
		}
		fail("selector %s", full)
	case *ast.CompositeLit:
		k := kindOfType(x.Type)
		if k == kSet && len(x.Elts) == 0 {
			return "([] : List Str)", kSet
		}
		if k != kInts && k != kStrs {
			fail("composite literal of %s", exprString(x.Type))
		}
		var el []string
		for _, e := range x.Elts {
			c, _ := t.expr(e)
			el = append(el, c)
		}
		return "[" + strings.Join(el, ", ") + "]", k
	case *ast.CallExpr:
		return t.call(x)
	}
	fail("expression %T", e)
	return "", ""
}

func atom(c string) string {
	if strings.ContainsAny(c, " ") && !(strings.HasPrefix(c, "(") && balancedWhole(c)) && !(strings.HasPrefix(c, "[") && strings.HasSuffix(c, "]")) {
		return "(" + c + ")"
	}
	return c
}

func balancedWhole(c string) bool {
	d := 0
	for i, r := range c {
		if r == '(' {
			d++
		}
		if r == ')' {
			d--
			if d == 0 && i != len(c)-1 {
				return false
			}
		}
	}
	return d == 0
}

func (t *tr) binary(x *ast.BinaryExpr) (string, string) {
	if (x.Op == token.EQL || x.Op == token.NEQ) && exprString(x.Y) == "nil" {
		if id, ok := x.X.(*ast.Ident); ok && t.kinds[id.Name] == kOptStr {
			return "(" + ident(id.Name) + " " + map[token.Token]string{token.EQL: "==", token.NEQ: "!="}[x.Op] + " none)", kBool
		}
	}
	l, lk := t.expr(x.X)
	r, rk := t.expr(x.Y)
	switch x.Op {
	case token.LAND, token.LOR:
		fn := map[token.Token]string{token.LAND: "Go.andM", token.LOR: "Go.orM"}[x.Op]
		op := map[token.Token]string{token.LAND: "&&", token.LOR: "||"}[x.Op]
		if impure(r) {
			return "(← " + fn + " " + atom(l) + " (do return " + atom(r) + "))", kBool
		}
		return "(" + l + " " + op + " " + r + ")", kBool
	case token.EQL:
		return "(" + l + " == " + r + ")", kBool
	case token.NEQ:
		return "(" + l + " != " + r + ")", kBool
	case token.LSS, token.LEQ, token.GTR, token.GEQ:
		return "(decide (" + l + " " + x.Op.String() + " " + r + "))", kBool
	case token.ADD:
		if lk == kStr || rk == kStr {
			return "(" + l + " ++ " + r + ")", kStr
		}
		if lk == kInt && rk == kInt || lk == kTime {
			return "(" + l + " + " + r + ")", lk
		}
		fail("operands of + have kinds %s, %s", lk, rk)
	case token.SUB, token.MUL:
		if lk == kInt && rk == kInt {
			return "(" + l + " " + x.Op.String() + " " + r + ")", kInt
		}
		fail("operands of %s have kinds %s, %s", x.Op, lk, rk)
	}
	fail("binary operator %s", x.Op)
	return "", ""
}

// fmt.Sprintf with a literal format of %s / %d / %v verbs
func (t *tr) sprintf(args []ast.Expr) string {
	lit, ok := args[0].(*ast.BasicLit)
	if !ok || lit.Kind != token.STRING {
		fail("Sprintf with a non-literal format")
	}
	f, _ := strconv.Unquote(lit.Value)
	var parts []string
	rest := args[1:]
	cur := ""
	flush := func() {
		if cur != "" {
			parts = append(parts, strLit(cur))
			cur = ""
		}
	}
	for i := 0; i < len(f); i++ {
		if f[i] != '%' {
			cur += string(f[i])
			continue
		}
		i++
		if i >= len(f) {
			fail("format %q", f)
		}
		if f[i] == '%' {
			cur += "%"
			continue
		}
		if len(rest) == 0 {
			fail("format %q: too few arguments", f)
		}
		c, k := t.expr(rest[0])
		rest = rest[1:]
		flush()
		switch {
		case f[i] == 's' && k == kStr, f[i] == 'v' && k == kStr:
			parts = append(parts, atom(c))
		case f[i] == 'd' && k == kInt, f[i] == 'v' && k == kInt:
			parts = append(parts, "Go.fmtD "+atom(c))
		default:
			fail("format verb %%%c with an argument of kind %s", f[i], k)
		}
	}
	flush()
	if len(rest) != 0 {
		fail("format %q: too many arguments", f)
	}
	if len(parts) == 0 {
		return "([] : Str)"
	}
	return "(" + strings.Join(parts, " ++ ") + ")"
}

func (t *tr) args(es []ast.Expr) []string {
	var out []string
	for _, e := range es {
		c, _ := t.expr(e)
		out = append(out, atom(c))
	}
	return out
}

func (t *tr) call(x *ast.CallExpr) (string, string) {
	fn := exprString(x.Fun)
	// conversions
	switch fn {
	case "[]byte", "string":
		c, _ := t.expr(x.Args[0])
		return c, kStr
	case "int64", "int", "time.Duration":
		if inner, ok := x.Args[0].(*ast.CallExpr); ok && fn == "int" {
			if sel, ok := inner.Fun.(*ast.SelectorExpr); ok && sel.Sel.Name == "Seconds" && len(inner.Args) == 0 {
				c, k := t.expr(sel.X)
				if k == kInt {
					return "(Go.durationSecondsInt " + atom(c) + ")", kInt
				}
			}
		}
		c, _ := t.expr(x.Args[0])
		return c, kInt
	case "len":
		c, k := t.expr(x.Args[0])
		if k == kSet {
			return "(Go.setLen " + atom(c) + ")", kInt
		}
		return "(Go.len " + atom(c) + ")", kInt
	}
	a := func() []string { return t.args(x.Args) }
	switch fn {
	case "strings.Split":
		return "(Go.stringsSplit " + strings.Join(a(), " ") + ")", kStrs
	case "strings.HasPrefix":
		return "(Go.stringsHasPrefix " + strings.Join(a(), " ") + ")", kBool
	case "strings.HasSuffix":
		return "(Go.stringsHasSuffix " + strings.Join(a(), " ") + ")", kBool
	case "strings.TrimPrefix":
		return "(Go.stringsTrimPrefix " + strings.Join(a(), " ") + ")", kStr
	case "strings.TrimRight":
		return "(Go.stringsTrimRight " + strings.Join(a(), " ") + ")", kStr
	case "strings.LastIndexByte":
		return "(Go.stringsLastIndexByte " + strings.Join(a(), " ") + ")", kInt
	case "strings.LastIndex":
		return "(Go.stringsLastIndex " + strings.Join(a(), " ") + ")", kInt
	case "strconv.Atoi":
		return "(Go.strconvAtoi " + strings.Join(a(), " ") + ")", "tuple:int,err"
	case "base64.URLEncoding.DecodeString":
		return "(Go.b64UrlDecode " + strings.Join(a(), " ") + ")", "tuple:str,err"
	case "base64.RawURLEncoding.DecodeString":
		return "(Go.b64RawUrlDecode " + strings.Join(a(), " ") + ")", "tuple:str,err"
	case "base64.URLEncoding.EncodeToString":
		return "(Go.b64UrlEncode " + strings.Join(a(), " ") + ")", kStr
	case "base64.RawURLEncoding.EncodeToString":
		return "(Go.b64RawUrlEncode " + strings.Join(a(), " ") + ")", kStr
	case "hmac.New":
		return "(Go.hmacNew " + a()[1] + ")", kHmac
	case "hmac.Equal":
		return "(Go.hmacEqual " + strings.Join(a(), " ") + ")", kBool
	case "sha256.Sum256":
		return "(E.sha " + strings.Join(a(), " ") + ")", kStr
	case "fmt.Sprintf":
		return t.sprintf(x.Args), kStr
	case "fmt.Errorf":
		return "(some ([] : Str))", kErr // only the nil-ness of an error is modelled, not its text
	case "time.Now":
		return "E.nowNs", kTime
	case "time.Unix":
		if exprString(x.Args[1]) != "0" {
			fail("time.Unix with a nanosecond part")
		}
		return "(Go.timeUnix " + a()[0] + ")", kTime
	case "url.Parse":
		return "(Go.urlParse E " + a()[0] + ")", "tuple:url,err"
	case "url.ParseRequestURI":
		return "(Go.urlParseRequestURI E " + a()[0] + ")", "tuple:url,err"
	case "strings.SplitN":
		if exprString(x.Args[2]) != "2" {
			fail("strings.SplitN with n other than 2")
		}
		return "(Go.stringsSplitN2 " + a()[0] + " " + a()[1] + ")", kStrs
	case "errors.New":
		return "(some ([] : Str))", kErr
	case "sha256.New":
		return "Go.shaNew", kSha
	case "strings.Index":
		return "(Go.stringsIndex " + strings.Join(a(), " ") + ")", kInt
	case "strings.IndexRune":
		return "(Go.stringsIndex " + a()[0] + " [" + a()[1] + "])", kInt
	case "strings.TrimSpace":
		return "(Go.stringsTrimSpace " + a()[0] + ")", kStr
	case "net.ParseIP":
		return "(E.parseIP " + a()[0] + ")", kIP
	case "middlewareapi.GetRequestScope":
		return a()[0] + ".scope", kScope
	case "net.SplitHostPort":
		return "(Go.netSplitHostPort E " + a()[0] + ")", "tuple:str,str,err"
	}
	if strings.HasSuffix(fn, ".Clock.Now") {
		return "E.nowNs", kTime // the session's clock is the wall clock outside tests
	}
	// the director's validator is the redirect validator built from the whitelist: a.validator.IsValidRedirect(x)
	if sel, ok := x.Fun.(*ast.SelectorExpr); ok && sel.Sel.Name == "IsValidRedirect" {
		if inner, ok := sel.X.(*ast.SelectorExpr); ok {
			if id, ok := inner.X.(*ast.Ident); ok {
				if k, ok := t.recvFields[id.Name+"."+inner.Sel.Name]; ok && k == kStrs {
					return "(← IsValidRedirect E " + ident(id.Name+"_"+inner.Sel.Name) + " " + a()[0] + ")", kBool
				}
			}
		}
	}
	// a method of the same receiver that is translated too: a.m(args) — the callee's receiver fields are passed on by name
	if sel, ok := x.Fun.(*ast.SelectorExpr); ok {
		if id, ok := sel.X.(*ast.Ident); ok && t.recvName == id.Name {
			if callee, ok := t.methodFields[sel.Sel.Name]; ok {
				var as []string
				for _, f := range callee {
					if _, have := t.recvFields[id.Name+"."+f]; !have {
						fail("call of %s needs the receiver field %s, which this function does not declare", sel.Sel.Name, f)
					}
					as = append(as, ident(id.Name+"_"+f))
				}
				sg := t.sigs[sel.Sel.Name]
				for i, arg := range x.Args {
					if i < len(sg.params) && sg.params[i] == kStr {
						if bl, ok := arg.(*ast.BasicLit); ok && bl.Kind == token.STRING && strings.Contains(bl.Value, "%s") {
							as = append(as, "([] : Str)") // a log format: not part of the result
							continue
						}
					}
					c, _ := t.expr(arg)
					as = append(as, atom(c))
				}
				k := "tuple:" + strings.Join(sg.results, ",")
				if len(sg.results) == 1 {
					k = sg.results[0]
				}
				return "(← " + sel.Sel.Name + " E " + strings.Join(as, " ") + ")", k
			}
		}
	}
	// reads of the request
	if sel, ok := x.Fun.(*ast.SelectorExpr); ok {
		if inner, ok := sel.X.(*ast.SelectorExpr); ok {
			if id, ok := inner.X.(*ast.Ident); ok && t.kinds[id.Name] == kReq {
				switch inner.Sel.Name + "." + sel.Sel.Name {
				case "Header.Get":
					return "(" + ident(id.Name) + ".header " + a()[0] + ")", kStr
				case "URL.RequestURI":
					return ident(id.Name) + ".requestURI", kStr
				case "URL.Query":
					return ident(id.Name) + ".query", kQuery
				}
			}
		}
		// a translated function of another package: pkg.F(...)
		if pkg, ok := sel.X.(*ast.Ident); ok {
			if _, isVar := t.kinds[pkg.Name]; !isVar {
				if _, ok := t.sigs[sel.Sel.Name]; ok && (pkg.Name == "requestutil" || pkg.Name == "util" || pkg.Name == "encryption") {
					return t.call(&ast.CallExpr{Fun: ast.NewIdent(sel.Sel.Name), Args: x.Args, Ellipsis: x.Ellipsis})
				}
			}
		}
	}
	// method calls
	if sel, ok := x.Fun.(*ast.SelectorExpr); ok {
		if id, ok := sel.X.(*ast.Ident); ok {
			if k, ok := t.kinds[id.Name]; ok {
				switch k + "." + sel.Sel.Name {
				case "sha.Sum":
					arg := "([] : Str)"
					if exprString(x.Args[0]) != "nil" {
						arg = a()[0]
					}
					return "(Go.shaSum E " + ident(id.Name) + " " + arg + ")", kStr
				case "header.Get":
					return "(" + ident(id.Name) + " " + a()[0] + ")", kStr
				case "hmac.Sum":
					return "(Go.hmacSum E " + ident(id.Name) + " " + a()[0] + ")", kStr
				case "url.Hostname":
					return ident(id.Name) + ".hostname", kStr
				case "url.Port":
					return ident(id.Name) + ".port", kStr
				case "time.Unix":
					return "(Go.timeToUnix " + ident(id.Name) + ")", kInt
				}
			}
		}
		if sel.Sel.Name == "MatchString" {
			rc, rk := t.expr(sel.X)
			if rk == kRegex {
				return "(E.regexMatch " + atom(rc) + " " + a()[0] + ")", kBool
			}
		}
		// methods on arbitrary time-valued expressions
		rc, rk := "", ""
		func() {
			defer func() {
				if r := recover(); r != nil {
					if _, ok := r.(untranslatable); !ok {
						panic(r)
					}
				}
			}()
			rc, rk = t.expr(sel.X)
		}()
		if rk == kOptTime {
			rc, rk = "(← Go.derefTime "+atom(rc)+")", kTime // a method on a *time.Time: nil is a panic
		}
		if rk == kTime {
			switch sel.Sel.Name {
			case "IsZero":
				return "(" + rc + " == Go.timeZero)", kBool
			case "After":
				return "(decide (" + rc + " > " + a()[0] + "))", kBool
			case "Before":
				return "(decide (" + rc + " < " + a()[0] + "))", kBool
			case "Add":
				return "(" + rc + " + " + a()[0] + ")", kTime
			case "Truncate":
				return "(Go.timeTruncate " + atom(rc) + " " + a()[0] + ")", kTime
			case "Sub":
				return "(" + rc + " - " + a()[0] + ")", kInt
			case "Equal":
				return "(" + rc + " == " + a()[0] + ")", kBool
			case "Unix":
				return "(Go.timeToUnix " + atom(rc) + ")", kInt
			}
		}
	}
	// translated functions
	if id, ok := x.Fun.(*ast.Ident); ok {
		if s, ok := t.sigs[id.Name]; ok {
			var as []string
			n := len(s.params)
			if s.variadic {
				n--
			}
			if len(x.Args) < n {
				fail("call of %s with too few arguments", id.Name)
			}
			for i := 0; i < n; i++ {
				if s.params[i] == kUnit {
					as = append(as, "()")
					continue
				}
				t.rawOpt = s.params[i] == kOptStr
				c, _ := t.expr(x.Args[i])
				t.rawOpt = false
				as = append(as, atom(c))
			}
			if s.variadic {
				if x.Ellipsis.IsValid() {
					c, _ := t.expr(x.Args[n])
					as = append(as, atom(c))
				} else {
					var el []string
					for _, e := range x.Args[n:] {
						c, _ := t.expr(e)
						el = append(el, c)
					}
					as = append(as, "["+strings.Join(el, ", ")+"]")
				}
			} else if len(x.Args) != n {
				fail("call of %s with %d arguments", id.Name, len(x.Args))
			}
			k := "tuple:" + strings.Join(s.results, ",")
			if len(s.results) == 1 {
				k = s.results[0]
			}
			return "(← " + id.Name + " E " + strings.Join(as, " ") + ")", k
		}
	}
	fail("call of %s", fn)
	return "", ""
}

type out struct {
	lines []string
}

func (o *out) add(indent int, s string) { o.lines = append(o.lines, strings.Repeat("  ", indent)+s) }

func (t *tr) retValue(vals []string) string {
	v := ""
	if len(vals) == 1 {
		v = vals[0]
	} else {
		v = "(" + strings.Join(vals, ", ") + ")"
	}
	if t.loopRet > 0 {
		if t.loopSt[len(t.loopSt)-1] != "" {
			return "return Sum.inl " + atom(v)
		}
		return "return some " + atom(v)
	}
	return "return " + v
}

func (t *tr) bindTuple(o *out, ind int, lhs []ast.Expr, code, kind string, define bool) {
	ks := strings.Split(strings.TrimPrefix(kind, "tuple:"), ",")
	if len(ks) != len(lhs) {
		fail("assignment of %d values to %d variables", len(ks), len(lhs))
	}
	var names []string
	for i, l := range lhs {
		id, ok := l.(*ast.Ident)
		if !ok {
			fail("assignment to %s", exprString(l))
		}
		if id.Name == "_" {
			names = append(names, "_")
			continue
		}
		names = append(names, ident(id.Name))
		if define {
			t.kinds[id.Name] = ks[i]
		}
	}
	if define {
		o.add(ind, t.letKw(names)+" ("+strings.Join(names, ", ")+") := "+code)
	} else {
		o.add(ind, "("+strings.Join(names, ", ")+") := "+code)
	}
}

// `let mut` only for variables that are assigned later: Lean does not let a mutable variable be shadowed
func (t *tr) letKw(names []string) string {
	anyMut, allMut := false, true
	for _, n := range names {
		if n == "_" {
			continue
		}
		if t.mutable[strings.TrimSuffix(n, "_")] || t.mutable[n] {
			anyMut = true
		} else {
			allMut = false
		}
	}
	if anyMut && !allMut {
		fail("a declaration mixes variables that are assigned later with variables that are not: %v", names)
	}
	if anyMut {
		return "let mut"
	}
	return "let"
}

func (t *tr) block(o *out, ind int, stmts []ast.Stmt) {
	if len(stmts) == 0 {
		o.add(ind, "pure ()")
		return
	}
	before := len(o.lines)
	for _, s := range stmts {
		t.stmt(o, ind, s)
	}
	if len(o.lines) == before {
		o.add(ind, "pure ()") // only statements without an effect on the result (logging)
	}
}

func endsInReturn(stmts []ast.Stmt) bool {
	if len(stmts) == 0 {
		return false
	}
	switch s := stmts[len(stmts)-1].(type) {
	case *ast.ReturnStmt:
		return true
	case *ast.BranchStmt:
		return s.Tok == token.CONTINUE || s.Tok == token.BREAK
	}
	return false
}

func (t *tr) stmt(o *out, ind int, s ast.Stmt) {
	switch x := s.(type) {
	case *ast.AssignStmt:
		// h.Write(b): the running hash is a value
		if len(x.Rhs) == 1 {
			if c, ok := x.Rhs[0].(*ast.CallExpr); ok {
				if sel, ok := c.Fun.(*ast.SelectorExpr); ok && sel.Sel.Name == "Write" {
					if id, ok := sel.X.(*ast.Ident); ok && t.kinds[id.Name] == kHmac {
						a, _ := t.expr(c.Args[0])
						o.add(ind, ident(id.Name)+" := Go.hmacWrite "+ident(id.Name)+" "+atom(a))
						if len(x.Lhs) == 2 {
							if e, ok := x.Lhs[1].(*ast.Ident); ok && e.Name != "_" {
								t.kinds[e.Name] = kErr
								o.add(ind, t.letKw([]string{e.Name})+" "+ident(e.Name)+" : Go.Err := none")
							}
						}
						return
					}
				}
			}
		}
		// decoded, _ := base64.RawURLEncoding.DecodeString(s): the error is DISCARDED, what the decoder hands back on bad input (the bytes
		// decoded so far) is used: that lenient function is an external
		if len(x.Lhs) == 2 && len(x.Rhs) == 1 && x.Tok == token.DEFINE && exprString(x.Lhs[1]) == "_" {
			if c, ok := x.Rhs[0].(*ast.CallExpr); ok && exprString(c.Fun) == "base64.RawURLEncoding.DecodeString" {
				if id, ok := x.Lhs[0].(*ast.Ident); ok {
					a, _ := t.expr(c.Args[0])
					t.kinds[id.Name] = kStr
					o.add(ind, t.letKw([]string{id.Name})+" "+ident(id.Name)+" := E.b64RawUrlLenient "+atom(a))
					return
				}
			}
		}
		// m[k] = struct{}{} on a set; _, ok := m[k]
		if len(x.Lhs) == 1 && len(x.Rhs) == 1 && x.Tok == token.ASSIGN {
			if ix, ok := x.Lhs[0].(*ast.IndexExpr); ok {
				if id, ok := ix.X.(*ast.Ident); ok && t.kinds[id.Name] == kSet {
					k, _ := t.expr(ix.Index)
					o.add(ind, ident(id.Name)+" := Go.setInsert "+ident(id.Name)+" "+atom(k))
					return
				}
			}
		}
		if len(x.Lhs) == 2 && len(x.Rhs) == 1 && x.Tok == token.DEFINE {
			if ix, ok := x.Rhs[0].(*ast.IndexExpr); ok {
				if id, ok := ix.X.(*ast.Ident); ok && t.kinds[id.Name] == kSet {
					l0, ok0 := x.Lhs[0].(*ast.Ident)
					l1, ok1 := x.Lhs[1].(*ast.Ident)
					if ok0 && ok1 && l0.Name == "_" {
						k, _ := t.expr(ix.Index)
						t.kinds[l1.Name] = kBool
						o.add(ind, t.letKw([]string{l1.Name})+" "+ident(l1.Name)+" := Go.setHas "+ident(id.Name)+" "+atom(k))
						return
					}
				}
			}
		}
		switch x.Tok {
		case token.DEFINE, token.ASSIGN:
			define := x.Tok == token.DEFINE
			if len(x.Rhs) == 1 && len(x.Lhs) > 1 {
				c, k := t.expr(x.Rhs[0])
				if !strings.HasPrefix(k, "tuple:") {
					fail("multi-value assignment from a value of kind %s", k)
				}
				t.bindTuple(o, ind, x.Lhs, c, k, define)
				return
			}
			if len(x.Rhs) != len(x.Lhs) {
				fail("assignment shape")
			}
			if len(x.Lhs) == 1 {
				if sel, ok := x.Lhs[0].(*ast.SelectorExpr); ok && !define {
					if root, ok := sel.X.(*ast.Ident); ok && t.kinds[root.Name] == kHCookie {
						c, _ := t.expr(x.Rhs[0])
						o.add(ind, ident(root.Name)+" := { "+ident(root.Name)+" with "+sel.Sel.Name+" := "+c+" }")
						return
					}
				}
				id, ok := x.Lhs[0].(*ast.Ident)
				if !ok {
					fail("assignment to %s", exprString(x.Lhs[0]))
				}
				c, k := t.expr(x.Rhs[0])
				if define {
					t.kinds[id.Name] = k
					o.add(ind, t.letKw([]string{id.Name})+" "+ident(id.Name)+" := "+c)
				} else {
					if _, ok := t.kinds[id.Name]; !ok {
						fail("assignment to unknown %s", id.Name)
					}
					o.add(ind, ident(id.Name)+" := "+c)
				}
				return
			}
			// parallel assignment
			var cs, ks []string
			for _, r := range x.Rhs {
				c, k := t.expr(r)
				cs = append(cs, c)
				ks = append(ks, k)
			}
			t.bindTuple(o, ind, x.Lhs, "("+strings.Join(cs, ", ")+")", "tuple:"+strings.Join(ks, ","), define)
			return
		case token.ADD_ASSIGN:
			id, ok := x.Lhs[0].(*ast.Ident)
			if !ok {
				fail("+= on %s", exprString(x.Lhs[0]))
			}
			c, _ := t.expr(x.Rhs[0])
			op := " + "
			if t.kinds[id.Name] == kStr {
				op = " ++ "
			}
			o.add(ind, ident(id.Name)+" := "+ident(id.Name)+op+c)
			return
		}
		fail("assignment operator %s", x.Tok)
	case *ast.IncDecStmt:
		id, ok := x.X.(*ast.Ident)
		if !ok {
			fail("++ on %s", exprString(x.X))
		}
		op := " + 1"
		if x.Tok == token.DEC {
			op = " - 1"
		}
		o.add(ind, ident(id.Name)+" := "+ident(id.Name)+op)
	case *ast.DeclStmt:
		gd, ok := x.Decl.(*ast.GenDecl)
		if !ok || gd.Tok != token.VAR {
			fail("declaration")
		}
		for _, sp := range gd.Specs {
			vs := sp.(*ast.ValueSpec)
			if len(vs.Values) != 0 || vs.Type == nil {
				fail("var with initialiser")
			}
			k := kindOfType(vs.Type)
			for _, n := range vs.Names {
				t.kinds[n.Name] = k
				o.add(ind, t.letKw([]string{n.Name})+" "+ident(n.Name)+" : "+leanOfKind(k)+" := "+zeroOfKind(k))
			}
		}
	case *ast.ExprStmt:
		if c, ok := x.X.(*ast.CallExpr); ok {
			fn := exprString(c.Fun)
			if strings.HasPrefix(fn, "logger.") || fn == "warnInvalidDomain" {
				return // logging has no effect on the result
			}
			if fn == "panic" {
				o.add(ind, "throw \"panic\"")
				return
			}
			if sel, ok := c.Fun.(*ast.SelectorExpr); ok && sel.Sel.Name == "Write" {
				if id, ok := sel.X.(*ast.Ident); ok && t.kinds[id.Name] == kHmac {
					a, _ := t.expr(c.Args[0])
					o.add(ind, ident(id.Name)+" := Go.hmacWrite "+ident(id.Name)+" "+atom(a))
					return
				}
				if id, ok := sel.X.(*ast.Ident); ok && t.kinds[id.Name] == kSha {
					a, _ := t.expr(c.Args[0])
					o.add(ind, ident(id.Name)+" := Go.shaWrite "+ident(id.Name)+" "+atom(a))
					return
				}
			}
		}
		fail("expression statement %s", exprString(x.X))
	case *ast.ReturnStmt:
		if len(x.Results) == 0 {
			if len(t.named) == 0 {
				fail("bare return without named results")
			}
			var vs []string
			for _, n := range t.named {
				vs = append(vs, ident(n))
			}
			o.add(ind, t.retValue(vs))
			return
		}
		if len(x.Results) != len(t.results) {
			fail("return of %d values", len(x.Results))
		}
		var vs []string
		for i, r := range x.Results {
			if exprString(r) == "nil" && t.results[i] == kStr {
				vs = append(vs, "([] : Str)") // a nil byte slice
				continue
			}
			c, _ := t.expr(r)
			vs = append(vs, c)
		}
		o.add(ind, t.retValue(vs))
	case *ast.BranchStmt:
		if x.Tok == token.BREAK && t.loopRet > 0 && x.Label == nil && len(t.breakFlag) > 0 && t.breakFlag[len(t.breakFlag)-1] != "" {
			o.add(ind, t.breakFlag[len(t.breakFlag)-1]+" := true")
			o.add(ind, "return Sum.inr "+t.loopSt[len(t.loopSt)-1])
			return
		}
		if x.Tok == token.CONTINUE && t.loopRet > 0 && x.Label == nil {
			if st := t.loopSt[len(t.loopSt)-1]; st != "" {
				o.add(ind, "return Sum.inr "+st)
			} else {
				o.add(ind, "return none")
			}
			return
		}
		fail("branch statement %s", x.Tok)
	case *ast.BlockStmt:
		t.block(o, ind, x.List)
	case *ast.IfStmt:
		if x.Init != nil {
			t.stmt(o, ind, x.Init)
		}
		c, _ := t.expr(x.Cond)
		o.add(ind, "if "+c+" then")
		t.block(o, ind+1, x.Body.List)
		if x.Else != nil {
			o.add(ind, "else")
			switch e := x.Else.(type) {
			case *ast.BlockStmt:
				t.block(o, ind+1, e.List)
			default:
				t.stmt(o, ind+1, e)
			}
		}
	case *ast.SwitchStmt:
		if x.Init != nil {
			fail("switch with init")
		}
		tag := ""
		if x.Tag != nil {
			tag, _ = t.expr(x.Tag)
		}
		var def *ast.CaseClause
		var cases []*ast.CaseClause
		for _, c := range x.Body.List {
			cc := c.(*ast.CaseClause)
			if cc.List == nil {
				def = cc
			} else {
				cases = append(cases, cc)
			}
			for _, s := range cc.Body {
				if b, ok := s.(*ast.BranchStmt); ok && b.Tok == token.FALLTHROUGH {
					fail("fallthrough")
				}
			}
		}
		cur := ind
		for _, cc := range cases {
			var conds []string
			for _, v := range cc.List {
				c, _ := t.expr(v)
				if tag == "" {
					conds = append(conds, c) // `switch { case cond: }`
				} else {
					conds = append(conds, "("+tag+" == "+c+")")
				}
			}
			o.add(cur, "if "+strings.Join(conds, " || ")+" then")
			t.block(o, cur+1, cc.Body)
			o.add(cur, "else")
			cur++
		}
		if def != nil {
			t.block(o, cur, def.Body)
		} else {
			o.add(cur, "pure ()")
		}
	case *ast.RangeStmt:
		c, k := t.expr(x.X)
		if k == kSet && x.Value == nil && x.Key != nil {
			x = &ast.RangeStmt{Key: ast.NewIdent("_"), Value: x.Key, Tok: x.Tok, X: x.X, Body: x.Body} // `for k := range set`
		}
		if x.Key != nil {
			if id, ok := x.Key.(*ast.Ident); !ok || id.Name != "_" {
				fail("range with an index variable")
			}
		}
		v, ok := x.Value.(*ast.Ident)
		if !ok || x.Tok != token.DEFINE {
			fail("range without a value variable")
		}
		ek := ""
		switch k {
		case kStr:
			ek = kChar
		case kStrs:
			ek = kStr
		case kInts:
			ek = kInt
		case kRoutes:
			ek = kRoute
		case kSet:
			ek = kStr
		default:
			fail("range over a value of kind %s", k)
		}
		carried := assignsOuter(x.Body, t.kinds)
		breaks := hasBreak(x.Body)
		if breaks {
			// `break` = a carried flag: once set, the remaining iterations do nothing
			t.tmp++
			flag := fmt.Sprintf("brk%d", t.tmp)
			t.kinds[flag] = kBool
			t.mutable[flag] = true
			o.add(ind, "let mut "+flag+" := false")
			carried = append(carried, flag)
			t.breakFlag = append(t.breakFlag, flag)
		} else {
			t.breakFlag = append(t.breakFlag, "")
		}
		defer func() { t.breakFlag = t.breakFlag[:len(t.breakFlag)-1] }()
		saved := map[string]string{}
		for k, v := range t.kinds {
			saved[k] = v
		}
		t.kinds[v.Name] = ek
		t.tmp++
		r := fmt.Sprintf("r%d", t.tmp)
		if len(carried) == 0 {
			o.add(ind, "match ← Go.forRange "+atom(c)+" (fun "+ident(v.Name)+" => do")
			t.loopRet++
			t.loopSt = append(t.loopSt, "")
			t.block(o, ind+2, x.Body.List)
			if !endsInReturn(x.Body.List) {
				o.add(ind+2, "return none)")
			} else {
				o.lines[len(o.lines)-1] += ")"
			}
			t.loopRet--
			t.loopSt = t.loopSt[:len(t.loopSt)-1]
			o.add(ind+1, "with")
			o.add(ind, "| some "+r+" => "+t.retValue([]string{r}))
			o.add(ind, "| none => pure ()")
		} else {
			var cv []string
			for _, n := range carried {
				cv = append(cv, ident(n))
			}
			st := cv[0]
			if len(cv) > 1 {
				st = "(" + strings.Join(cv, ", ") + ")"
			}
			o.add(ind, "match ← Go.forRangeS "+atom(c)+" "+st+" (fun "+ident(v.Name)+" st => do")
			o.add(ind+2, "let mut "+st+" := st")
			if breaks {
				o.add(ind+2, "if "+t.breakFlag[len(t.breakFlag)-1]+" then")
				o.add(ind+3, "return Sum.inr "+st)
			}
			t.loopRet++
			t.loopSt = append(t.loopSt, st)
			t.block(o, ind+2, x.Body.List)
			if !endsInReturn(x.Body.List) {
				o.add(ind+2, "return Sum.inr "+st+")")
			} else {
				o.lines[len(o.lines)-1] += ")"
			}
			t.loopRet--
			t.loopSt = t.loopSt[:len(t.loopSt)-1]
			o.add(ind+1, "with")
			o.add(ind, "| .inl "+r+" => "+t.retValue([]string{r}))
			o.add(ind, "| .inr st => "+st+" := st")
		}
		t.kinds = saved
	default:
		fail("statement %T", s)
	}
}

// is the variable compared with nil anywhere in the body?
func comparedWithNil(b *ast.BlockStmt, name string) bool {
	found := false
	ast.Inspect(b, func(n ast.Node) bool {
		if be, ok := n.(*ast.BinaryExpr); ok && (be.Op == token.EQL || be.Op == token.NEQ) {
			if id, ok := be.X.(*ast.Ident); ok && id.Name == name && exprString(be.Y) == "nil" {
				found = true
			}
		}
		return true
	})
	return found
}

// does the loop body contain a `break` of THIS loop (not of a nested loop or switch)?
func hasBreak(b *ast.BlockStmt) bool {
	found := false
	var walk func(n ast.Node) bool
	walk = func(n ast.Node) bool {
		switch x := n.(type) {
		case *ast.ForStmt, *ast.RangeStmt, *ast.SwitchStmt, *ast.TypeSwitchStmt, *ast.SelectStmt, *ast.FuncLit:
			return false
		case *ast.BranchStmt:
			if x.Tok == token.BREAK && x.Label == nil {
				found = true
			}
		}
		return true
	}
	for _, st := range b.List {
		ast.Inspect(st, walk)
	}
	return found
}

// the variables declared outside the loop body that it assigns (=, +=, ++, h.Write), sorted
func assignsOuter(b *ast.BlockStmt, outer map[string]string) []string {
	declared := map[string]bool{}
	found := map[string]bool{}
	mark := func(e ast.Expr, define bool) {
		if id, ok := e.(*ast.Ident); ok && id.Name != "_" {
			if define {
				declared[id.Name] = true
			} else if _, isOuter := outer[id.Name]; isOuter && !declared[id.Name] {
				found[id.Name] = true
			}
		}
	}
	ast.Inspect(b, func(n ast.Node) bool {
		switch x := n.(type) {
		case *ast.AssignStmt:
			for _, l := range x.Lhs {
				mark(l, x.Tok == token.DEFINE)
				if ix, ok := l.(*ast.IndexExpr); ok {
					mark(ix.X, false)
				}
			}
		case *ast.IncDecStmt:
			mark(x.X, false)
		case *ast.CallExpr:
			if sel, ok := x.Fun.(*ast.SelectorExpr); ok && sel.Sel.Name == "Write" {
				if id, ok := sel.X.(*ast.Ident); ok && outer[id.Name] == kHmac {
					mark(id, false)
				}
			}
		}
		return true
	})
	var names []string
	for n := range found {
		names = append(names, n)
	}
	sort.Strings(names)
	return names
}

// every variable of the function that is the target of an assignment other than its declaration
func assignedNames(fd *ast.FuncDecl) map[string]bool {
	m := map[string]bool{}
	ast.Inspect(fd, func(n ast.Node) bool {
		switch x := n.(type) {
		case *ast.AssignStmt:
			if x.Tok != token.DEFINE {
				for _, l := range x.Lhs {
					if id, ok := l.(*ast.Ident); ok {
						m[id.Name] = true
					}
					if sel, ok := l.(*ast.SelectorExpr); ok {
						if id, ok := sel.X.(*ast.Ident); ok {
							m[id.Name] = true
						}
					}
					if ix, ok := l.(*ast.IndexExpr); ok {
						if id, ok := ix.X.(*ast.Ident); ok {
							m[id.Name] = true
						}
					}
				}
			}
		case *ast.IncDecStmt:
			if id, ok := x.X.(*ast.Ident); ok {
				m[id.Name] = true
			}
		case *ast.CallExpr:
			if sel, ok := x.Fun.(*ast.SelectorExpr); ok && sel.Sel.Name == "Write" {
				if id, ok := sel.X.(*ast.Ident); ok {
					m[id.Name] = true
				}
			}
		}
		return true
	})
	return m
}

func fieldKinds(fl *ast.FieldList) (kinds []string, names []string, variadic bool) {
	if fl == nil {
		return
	}
	for _, f := range fl.List {
		k := kindOfType(f.Type)
		if _, ok := f.Type.(*ast.Ellipsis); ok {
			variadic = true
		}
		if len(f.Names) == 0 {
			kinds = append(kinds, k)
			names = append(names, "")
		}
		for _, n := range f.Names {
			kinds = append(kinds, k)
			names = append(names, n.Name)
		}
	}
	return
}

func main() {
	if len(os.Args) != 3 {
		fmt.Fprintln(os.Stderr, "usage: go2lean <repo> <out.lean>")
		os.Exit(2)
	}
	repo, outPath := os.Args[1], os.Args[2]
	fset := token.NewFileSet()
	files := map[string]*ast.File{}
	decls := map[string]*ast.FuncDecl{}
	t := &tr{sigs: map[string]sig{}, consts: map[string]string{}, ckinds: map[string]string{}}
	var header []string
	for _, tg := range targets {
		f, ok := files[tg.file]
		if !ok {
			var err error
			f, err = parser.ParseFile(fset, filepath.Join(repo, tg.file), nil, 0)
			if err != nil {
				fmt.Fprintln(os.Stderr, "parse:", err)
				os.Exit(1)
			}
			files[tg.file] = f
			// package-level `regexp.MustCompile(<literal>)` variables: the pattern is the value
			for _, d := range f.Decls {
				gd, ok := d.(*ast.GenDecl)
				if !ok || gd.Tok != token.VAR {
					continue
				}
				for _, sp := range gd.Specs {
					vs := sp.(*ast.ValueSpec)
					for i, n := range vs.Names {
						if i < len(vs.Values) {
							if c, ok := vs.Values[i].(*ast.CallExpr); ok && exprString(c.Fun) == "regexp.MustCompile" && len(c.Args) == 1 {
								if bl, ok := c.Args[0].(*ast.BasicLit); ok && bl.Kind == token.STRING {
									pat, _ := strconv.Unquote(bl.Value)
									t.consts[n.Name] = strLit(pat)
									t.ckinds[n.Name] = kRegex
								}
							}
						}
					}
				}
			}
			// package-level constants with literal values
			for _, d := range f.Decls {
				gd, ok := d.(*ast.GenDecl)
				if !ok || gd.Tok != token.CONST {
					continue
				}
				for _, sp := range gd.Specs {
					vs := sp.(*ast.ValueSpec)
					for i, n := range vs.Names {
						if i < len(vs.Values) {
							if bl, ok := vs.Values[i].(*ast.BasicLit); ok {
								switch bl.Kind {
								case token.STRING:
									s, _ := strconv.Unquote(bl.Value)
									t.consts[n.Name] = strLit(s)
									t.ckinds[n.Name] = kStr
								case token.INT:
									t.consts[n.Name] = "(" + bl.Value + " : Int)"
									t.ckinds[n.Name] = kInt
								}
							}
						}
					}
				}
			}
		}
		for _, d := range f.Decls {
			fd, ok := d.(*ast.FuncDecl)
			if !ok || fd.Name.Name != tg.name {
				continue
			}
			if (fd.Recv == nil) != (tg.recv == "") {
				continue
			}
			decls[tg.name] = fd
		}
	}
	// signatures first (so that calls between translated functions resolve in any order)
	sigErr := map[string]string{}
	for _, tg := range targets {
		fd := decls[tg.name]
		if fd == nil {
			sigErr[tg.name] = "function not found in " + tg.file
			continue
		}
		func() {
			defer func() {
				if r := recover(); r != nil {
					if u, ok := r.(untranslatable); ok {
						sigErr[tg.name] = string(u)
						return
					}
					panic(r)
				}
			}()
			pk, pn, variadic := fieldKinds(fd.Type.Params)
			rk, _, _ := fieldKinds(fd.Type.Results)
			for i := range pk {
				if pk[i] == kStr && fd.Body != nil && comparedWithNil(fd.Body, pn[i]) {
					pk[i] = kOptStr
				}
			}
			for i := range rk {
				if rk[i] == kCookie {
					rk[i] = kHCookie
				}
			}
			t.sigs[tg.name] = sig{params: pk, variadic: variadic, results: rk}
		}()
	}
	// nil-ness of a byte slice travels with it: a []byte parameter handed on, as it is, to a translated function that compares
	// its parameter with nil is optional too
	for changed := true; changed; {
		changed = false
		for _, tg := range targets {
			fd := decls[tg.name]
			sg, ok := t.sigs[tg.name]
			if fd == nil || !ok || fd.Body == nil {
				continue
			}
			_, pn, _ := fieldKinds(fd.Type.Params)
			ast.Inspect(fd.Body, func(n ast.Node) bool {
				c, ok := n.(*ast.CallExpr)
				if !ok {
					return true
				}
				id, ok := c.Fun.(*ast.Ident)
				if !ok {
					return true
				}
				callee, ok := t.sigs[id.Name]
				if !ok {
					return true
				}
				for i, a := range c.Args {
					ai, ok := a.(*ast.Ident)
					if !ok || i >= len(callee.params) || callee.params[i] != kOptStr {
						continue
					}
					for j, name := range pn {
						if name == ai.Name && sg.params[j] == kStr {
							sg.params[j] = kOptStr
							changed = true
						}
					}
				}
				return true
			})
			t.sigs[tg.name] = sg
		}
	}
	t.methodFields = map[string][]string{}
	for _, tg := range targets {
		if tg.recv != "" {
			var fs []string
			for _, fk := range strings.Split(tg.recvFields, ",") {
				if fk != "" {
					fs = append(fs, strings.SplitN(fk, ":", 2)[0])
				}
			}
			t.methodFields[tg.name] = fs
		}
	}
	var body []string
	var names []string
	for _, tg := range targets {
		names = append(names, tg.name)
		if e, bad := sigErr[tg.name]; bad {
			body = append(body, fmt.Sprintf("/-- %s: %s — NOT TRANSLATED: %s -/", tg.file, tg.name, e))
			body = append(body, fmt.Sprintf("def %s : Go.M Unit := throw %q", tg.name, "untranslatable: "+e), "")
			continue
		}
		fd := decls[tg.name]
		s := t.sigs[tg.name]
		_, pnames, _ := fieldKinds(fd.Type.Params)
		_, rnames, _ := fieldKinds(fd.Type.Results)
		t.kinds = map[string]string{}
		t.named = nil
		t.results = s.results
		t.loopRet = 0
		t.tmp = 0
		t.mutable = map[string]bool{}
		for n := range assignedNames(fd) {
			t.mutable[n] = true
		}
		for _, n := range rnames {
			t.mutable[n] = true
		}
		var ps []string
		t.recvFields = map[string]string{}
		t.recvName = ""
		if tg.recv != "" && fd.Recv != nil && len(fd.Recv.List) == 1 && len(fd.Recv.List[0].Names) == 1 {
			rn := fd.Recv.List[0].Names[0].Name
			t.recvName = rn
			for _, fk := range strings.Split(tg.recvFields, ",") {
				if fk == "" {
					continue
				}
				kv := strings.SplitN(fk, ":", 2)
				t.recvFields[rn+"."+kv[0]] = kv[1]
				ps = append(ps, "("+ident(rn+"_"+kv[0])+" : "+leanOfKind(kv[1])+")")
			}
		}
		for i, k := range s.params {
			n := pnames[i]
			if n == "" || n == "_" {
				n = fmt.Sprintf("p%d", i)
			}
			t.kinds[n] = k
			ps = append(ps, "("+ident(n)+" : "+leanOfKind(k)+")")
		}
		var rts []string
		for _, k := range s.results {
			rts = append(rts, leanOfKind(k))
		}
		rt := strings.Join(rts, " × ")
		if len(rts) == 0 {
			rt = "Unit"
		}
		headerLine := fmt.Sprintf("def %s (E : Go.Ext) %s : Go.M (%s) := do", tg.name, strings.Join(ps, " "), rt)
		o := &out{}
		failed := ""
		func() {
			defer func() {
				if r := recover(); r != nil {
					if u, ok := r.(untranslatable); ok {
						failed = string(u)
						return
					}
					panic(r)
				}
			}()
			for i, n := range rnames {
				if n != "" && n != "_" {
					t.named = append(t.named, n)
					t.kinds[n] = s.results[i]
					o.add(1, "let mut "+ident(n)+" : "+leanOfKind(s.results[i])+" := "+zeroOfKind(s.results[i]))
				}
			}
			t.block(o, 1, fd.Body.List)
		}()
		body = append(body, fmt.Sprintf("/-- %s: `%s` (regenerated from the working tree) -/", tg.file, tg.name))
		if failed != "" {
			body[len(body)-1] = fmt.Sprintf("/-- %s: `%s` — NOT TRANSLATED: %s -/", tg.file, tg.name, failed)
			body = append(body, strings.TrimSuffix(headerLine, " do"))
			body = append(body, fmt.Sprintf("  throw %q", "untranslatable: "+failed), "")
			continue
		}
		body = append(body, headerLine)
		body = append(body, o.lines...)
		body = append(body, "")
	}
	sort.Strings(names)
	header = append(header,
		"/- REGENERATED by /verif/go2lean from the repository's working tree on every check. Do not edit. -/",
		"import O2P.Go.Prim",
		"set_option linter.unusedVariables false",
		"namespace O2P.Gen.Tr",
		"open O2P",
		"",
		"def translated : List String := ["+quoteAll(names)+"]",
		"")
	outText := strings.Join(header, "\n") + "\n" + strings.Join(body, "\n") + "\nend O2P.Gen.Tr\n"
	if err := os.WriteFile(outPath, []byte(outText), 0o644); err != nil {
		fmt.Fprintln(os.Stderr, err)
		os.Exit(1)
	}
}

func quoteAll(xs []string) string {
	var q []string
	for _, x := range xs {
		q = append(q, strconv.Quote(x))
	}
	return strings.Join(q, ", ")
}
