module go2lean

go 1.23
