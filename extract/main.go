// Fact extractor: /repo working tree → lean/O2P/Gen/Facts.lean (stdlib go/ast only).
//
// usage: go run . <repo> <out.lean>
//
// The facts are regenerated on every run; O2P/Expect.lean states (by `decide`) what the
// hand-written model relies on, and the model uses the constants (F1) directly.
package main

import (
	"bytes"
	"crypto/sha256"
	"encoding/hex"
	"fmt"
	"go/ast"
	"go/parser"
	"go/printer"
	"go/token"
	"os"
	"path/filepath"
	"reflect"
	"sort"
	"strconv"
	"strings"
)

var fset = token.NewFileSet()
var repo string

func parse(rel string) *ast.File {
	f, err := parser.ParseFile(fset, filepath.Join(repo, rel), nil, parser.ParseComments)
	if err != nil {
		fmt.Fprintln(os.Stderr, "parse error:", err)
		os.Exit(1)
	}
	return f
}

func src(n ast.Node) string {
	var b bytes.Buffer
	printer.Fprint(&b, fset, n)
	return strings.Join(strings.Fields(b.String()), " ")
}

func lstr(s string) string {
	var b strings.Builder
	b.WriteByte('"')
	for _, r := range s {
		switch {
		case r == '"':
			b.WriteString("\\\"")
		case r == '\\':
			b.WriteString("\\\\")
		case r == '\n':
			b.WriteString("\\n")
		case r == '\t':
			b.WriteString("\\t")
		case r < 0x20 || r == 0x7f:
			b.WriteString(fmt.Sprintf("\\x%02x", r))
		default:
			b.WriteRune(r)
		}
	}
	b.WriteByte('"')
	return b.String()
}

func lstrs(xs []string) string {
	q := make([]string, len(xs))
	for i, x := range xs {
		q[i] = lstr(x)
	}
	return "[" + strings.Join(q, ", ") + "]"
}

// constant / var initialiser by name (top level)
func topValue(f *ast.File, name string) ast.Expr {
	for _, d := range f.Decls {
		gd, ok := d.(*ast.GenDecl)
		if !ok {
			continue
		}
		for _, s := range gd.Specs {
			vs, ok := s.(*ast.ValueSpec)
			if !ok {
				continue
			}
			for i, n := range vs.Names {
				if n.Name == name && i < len(vs.Values) {
					return vs.Values[i]
				}
			}
		}
	}
	return nil
}

func strLit(e ast.Expr) (string, bool) {
	switch v := e.(type) {
	case *ast.BasicLit:
		if v.Kind == token.STRING {
			s, err := strconv.Unquote(v.Value)
			return s, err == nil
		}
	case *ast.CallExpr: // regexp.MustCompile(`..`)
		if len(v.Args) == 1 {
			return strLit(v.Args[0])
		}
	}
	return "", false
}

var durUnits = map[string]int64{"Nanosecond": 1, "Microsecond": 1e3, "Millisecond": 1e6, "Second": 1e9, "Minute": 60e9, "Hour": 3600e9}

// evaluates integer / duration constant expressions like 5 * time.Second, csrfStateLength - 1
func evalInt(e ast.Expr, env map[string]int64) (int64, bool) {
	switch v := e.(type) {
	case *ast.BasicLit:
		if v.Kind == token.INT {
			n, err := strconv.ParseInt(v.Value, 0, 64)
			return n, err == nil
		}
	case *ast.Ident:
		n, ok := env[v.Name]
		return n, ok
	case *ast.SelectorExpr:
		if x, ok := v.X.(*ast.Ident); ok && x.Name == "time" {
			n, ok := durUnits[v.Sel.Name]
			return n, ok
		}
		if x, ok := v.X.(*ast.Ident); ok && x.Name == "aes" && v.Sel.Name == "BlockSize" {
			return 16, true
		}
	case *ast.ParenExpr:
		return evalInt(v.X, env)
	case *ast.UnaryExpr:
		if v.Op == token.SUB {
			n, ok := evalInt(v.X, env)
			return -n, ok
		}
	case *ast.BinaryExpr:
		a, ok1 := evalInt(v.X, env)
		b, ok2 := evalInt(v.Y, env)
		if !ok1 || !ok2 {
			return 0, false
		}
		switch v.Op {
		case token.MUL:
			return a * b, true
		case token.ADD:
			return a + b, true
		case token.SUB:
			return a - b, true
		}
	case *ast.CallExpr: // time.Duration(0)
		if len(v.Args) == 1 {
			return evalInt(v.Args[0], env)
		}
	}
	return 0, false
}

func funcDecl(f *ast.File, name string) *ast.FuncDecl {
	for _, d := range f.Decls {
		if fd, ok := d.(*ast.FuncDecl); ok && fd.Name.Name == name {
			return fd
		}
	}
	return nil
}

// funcs returns every function (incl. methods) of a file with a display name Recv.Name
func funcs(f *ast.File) map[string]*ast.FuncDecl {
	m := map[string]*ast.FuncDecl{}
	for _, d := range f.Decls {
		if fd, ok := d.(*ast.FuncDecl); ok {
			m[fname(fd)] = fd
		}
	}
	return m
}

func fname(fd *ast.FuncDecl) string {
	if fd.Recv != nil && len(fd.Recv.List) == 1 {
		t := fd.Recv.List[0].Type
		if s, ok := t.(*ast.StarExpr); ok {
			t = s.X
		}
		return src(t) + "." + fd.Name.Name
	}
	return fd.Name.Name
}

func calleeName(c *ast.CallExpr) string {
	switch f := c.Fun.(type) {
	case *ast.Ident:
		return f.Name
	case *ast.SelectorExpr:
		return src(f)
	}
	return src(c.Fun)
}

// skeleton: the ordered sequence of relevant calls and of return statements in a function
// body (source order). A call is relevant when its callee's last selector component is in
// `keep`. `return` tokens are emitted as "return" (with "return nil"-style first result
// when it is an identifier/literal, to distinguish success and error returns).
func skeleton(fd *ast.FuncDecl, keep map[string]bool) []string {
	var out []string
	if fd == nil || fd.Body == nil {
		return []string{"<missing>"}
	}
	ast.Inspect(fd.Body, func(n ast.Node) bool {
		switch v := n.(type) {
		case *ast.CallExpr:
			name := calleeName(v)
			last := name
			if i := strings.LastIndex(name, "."); i >= 0 {
				last = name[i+1:]
			}
			if keep[last] {
				out = append(out, name)
			}
		case *ast.ReturnStmt:
			rs := make([]string, len(v.Results))
			for i, r := range v.Results {
				rs[i] = src(r)
				if len(rs[i]) > 60 {
					rs[i] = rs[i][:60]
				}
			}
			out = append(out, strings.TrimSpace("return "+strings.Join(rs, ", ")))
		case *ast.IfStmt:
			out = append(out, "if "+src(v.Cond))
		case *ast.CaseClause:
			cs := make([]string, len(v.List))
			for i, r := range v.List {
				cs[i] = src(r)
			}
			out = append(out, "case "+strings.Join(cs, ", "))
		case *ast.DeferStmt:
			out = append(out, "defer")
		case *ast.ForStmt:
			if v.Cond != nil {
				out = append(out, "for "+src(v.Cond))
			} else {
				out = append(out, "for")
			}
		case *ast.FuncLit:
			out = append(out, "func{")
		}
		return true
	})
	return out
}

var out bytes.Buffer

func emit(format string, a ...interface{}) { fmt.Fprintf(&out, format, a...) }

// bodyDigest: SHA-256 of the function as go/printer prints it without its doc comment
func bodyDigest(fd *ast.FuncDecl) string {
	if fd == nil {
		return "absent"
	}
	cp := *fd
	cp.Doc = nil
	var buf bytes.Buffer
	if err := printer.Fprint(&buf, token.NewFileSet(), &cp); err != nil {
		return "unprintable"
	}
	sum := sha256.Sum256(buf.Bytes())
	return hex.EncodeToString(sum[:8])
}

func main() {
	repo = os.Args[1]
	emit("/- GENERATED by /verif/extract from %s — do not edit; regenerated on every run. -/\n", repo)
	emit("namespace O2P.Facts\n\n")

	// ------------------------------------------------------------------ F1 constants
	env := map[string]int64{}
	intConst := func(rel, name string) {
		f := parse(rel)
		e := topValue(f, name)
		if e == nil {
			emit("def %s : Int := -999999 -- MISSING in %s\n", name, rel)
			return
		}
		n, ok := evalInt(e, env)
		if !ok {
			emit("def %s : Int := -999998 -- not a constant expression: %s\n", name, src(e))
			return
		}
		env[name] = n
		emit("def %s : Int := %d\n", name, n)
	}
	strConst := func(rel, name string) {
		f := parse(rel)
		e := topValue(f, name)
		s, ok := "", false
		if e != nil {
			s, ok = strLit(e)
		}
		if !ok {
			emit("def %s : String := \"<MISSING>\"\n", name)
			return
		}
		emit("def %s : String := %s\n", name, lstr(s))
	}
	intConst("pkg/sessions/cookie/session_store.go", "maxCookieLength")
	intConst("pkg/cookies/csrf.go", "csrfStateLength")
	intConst("pkg/middleware/stored_session.go", "sessionRefreshObtainTimeout")
	intConst("pkg/middleware/stored_session.go", "sessionRefreshLockDuration")
	intConst("pkg/middleware/stored_session.go", "sessionRefreshRetryPeriod")
	strConst("pkg/app/redirect/validator.go", "invalidRedirectRegex")
	strConst("pkg/middleware/jwt_session.go", "jwtRegexFormat")
	strConst("pkg/encryption/utils.go", "asciiCharset")
	strConst("pkg/sessions/redis/lock.go", "LockSuffix")
	for _, n := range []string{"robotsPath", "signInPath", "signOutPath", "oauthStartPath", "oauthCallbackPath", "authOnlyPath", "userInfoPath", "staticPathPrefix"} {
		strConst("oauthproxy.go", n)
	}
	// literal arguments of specific calls inside specific functions
	callArgs := func(rel, fn, callee string) []string {
		f := parse(rel)
		fd := funcs(f)[fn]
		var res []string
		if fd == nil || fd.Body == nil {
			return []string{"<missing " + fn + ">"}
		}
		ast.Inspect(fd.Body, func(n ast.Node) bool {
			if c, ok := n.(*ast.CallExpr); ok && calleeName(c) == callee {
				var as []string
				for _, a := range c.Args {
					as = append(as, src(a))
				}
				res = append(res, strings.Join(as, ", "))
			}
			return true
		})
		return res
	}
	emit("def newCSRF_nonceArgs : List String := %s\n", lstrs(callArgs("pkg/cookies/csrf.go", "NewCSRF", "encryption.Nonce")))
	emit("def oauthStart_verifierArgs : List String := %s\n", lstrs(callArgs("oauthproxy.go", "OAuthProxy.doOAuthStart", "encryption.GenerateCodeVerifierString")))
	emit("def validate_windowArgs : List String := %s\n", lstrs(append(callArgs("pkg/encryption/utils.go", "Validate", "t.After"), callArgs("pkg/encryption/utils.go", "Validate", "t.Before")...)))
	emit("def validate_splitArgs : List String := %s\n", lstrs(callArgs("pkg/encryption/utils.go", "Validate", "strings.Split")))
	emit("def validate_sigArgs : List String := %s\n", lstrs(callArgs("pkg/encryption/utils.go", "Validate", "checkSignature")))
	emit("def signedValue_sigArgs : List String := %s\n", lstrs(callArgs("pkg/encryption/utils.go", "SignedValue", "cookieSignature")))
	emit("def clear_maxAgeArgs : List String := %s\n", lstrs(callArgs("pkg/sessions/cookie/session_store.go", "SessionStore.clearCookiesExcept", "s.makeCookie")))
	emit("def storeLoad_validateArgs : List String := %s\n", lstrs(callArgs("pkg/sessions/cookie/session_store.go", "SessionStore.Load", "encryption.Validate")))
	emit("def ticket_validateArgs : List String := %s\n", lstrs(callArgs("pkg/sessions/persistence/ticket.go", "decodeTicketFromRequest", "encryption.Validate")))
	emit("def csrf_validateArgs : List String := %s\n", lstrs(callArgs("pkg/cookies/csrf.go", "decodeCSRFCookie", "encryption.Validate")))
	emit("def ticket_saveArgs : List String := %s\n", lstrs(callArgs("pkg/sessions/persistence/ticket.go", "ticket.saveSession", "saver")))
	emit("def isAllowedPath_matchArgs : List String := %s\n", lstrs(callArgs("oauthproxy.go", "isAllowedPath", "route.pathRegex.MatchString")))
	emit("def verifier_skipClientIDCheck : List String := %s\n", lstrs(grepKeyValue("pkg/providers/oidc/provider_verifier.go", "SkipClientIDCheck")))

	// ------------------------------------------------------------------ F2 route table
	emit("\n/-- (function, registration expression) for every handler registration of the mux -/\n")
	var routes []string
	for _, fn := range []string{"OAuthProxy.buildServeMux", "OAuthProxy.buildProxySubrouter"} {
		fd := funcs(parse("oauthproxy.go"))[fn]
		if fd == nil {
			routes = append(routes, fn+": <missing>")
			continue
		}
		for _, st := range fd.Body.List {
			if es, ok := st.(*ast.ExprStmt); ok {
				if c, ok := es.X.(*ast.CallExpr); ok {
					s := src(c)
					if strings.Contains(s, "Handler") || strings.Contains(s, ".Use(") || strings.Contains(s, "buildProxySubrouter") {
						routes = append(routes, fd.Name.Name+": "+s)
					}
				}
			}
		}
	}
	emit("def routeTable : List String := %s\n", lstrsNL(routes))

	// ------------------------------------------------------------------ F3 skeletons
	keep := map[string]bool{}
	for _, k := range strings.Fields(`getAuthenticatedSession IsAllowedRequest Validator Authorize ClearSessionCookie addHeadersForProxying Then ServeHTTP
		ThenFunc errorJSON doOAuthStart SignInPage ErrorPage authOnlyAuthorize WriteHeader Write Encode GetRedirect backendLogout Redirect
		LoadCSRFCookie redeemCode enrichSessionState ClearCookie CheckOAuthState SetSessionNonce ValidateSession IsValidRedirect SaveSession
		decodeState GenerateCookieName GetCodeVerifier NewCSRF GetLoginURL SetCookie encodeState HashOAuthState HashOIDCNonce getOAuthRedirectURI
		GenerateCodeVerifierString GenerateCodeChallenge ManualSignIn Validate OAuthStart
		decodeTicketFromRequest newTicket saveSession setCookie loadSession clearCookie clearSession Save Load Clear
		getValidatedSession refreshSessionIfNeeded needsRefresh ObtainLock ReleaseLock refreshSession validateSession sessionRefresher sessionValidator
		CreatedAtNow IsExpired loadCookie DecodeSessionState cookieForSession setSessionCookie makeSessionCookie clearCookiesExcept SignedValue splitCookie isSessionCookieName splitCookieName Atoi LastIndex Cookies makeCookie SplitHostPort HasSuffix HasPrefix MatchString Parse IsEndpointAllowed validateRedirect Cookie joinCookies MakeCookieFromOptions IsProxied Get ParseRequestURI Index isAllowedMethod isAllowedPath Fprintf EqualFold ReadAll Do do Del Add Set Values Nonce New Equal Write Sum Split Atoi After Before DecodeString EncodeToString Unmarshal Marshal decrypt encrypt ReadFull Sprintf Obtain Release Exchange Token TokenSource getClaimFrom loadProfileClaims coerceClaim splitAuthHeader getBasicAuthCredentials MatchString Join HasSuffix ToLower Path PathPrefix Slice ReplaceAllString ParseQuery Encode Query Mask Size To4 To16 ParseIP ParseCIDR TrimSpace IndexRune Contains GetClaim
		isPreflightRequestAllowed isAllowedRoute isTrustedIP GetClientIP Has verifyAudience Verify Claims isValidAudience buildSessionFromClaims
		verifyIDToken createSession redeemRefreshToken checkNonce GetClaimInto CheckNonce VerifyConnection
		Lock Unlock RLock RUnlock StorePointer LoadPointer createHtpasswdMap ReadAll`) {
		keep[k] = true
	}
	type sk struct{ rel, fn string }
	for _, s := range []sk{
		{"oauthproxy.go", "OAuthProxy.getAuthenticatedSession"}, {"oauthproxy.go", "OAuthProxy.Proxy"}, {"oauthproxy.go", "OAuthProxy.AuthOnly"},
		{"oauthproxy.go", "OAuthProxy.UserInfo"}, {"oauthproxy.go", "OAuthProxy.SignOut"}, {"oauthproxy.go", "OAuthProxy.SignIn"},
		{"oauthproxy.go", "OAuthProxy.SignInPage"},
		{"oauthproxy.go", "OAuthProxy.OAuthCallback"}, {"oauthproxy.go", "OAuthProxy.doOAuthStart"}, {"oauthproxy.go", "OAuthProxy.IsAllowedRequest"},
		{"oauthproxy.go", "OAuthProxy.redeemCode"},
		{"pkg/sessions/persistence/manager.go", "Manager.Save"}, {"pkg/sessions/persistence/manager.go", "Manager.Load"}, {"pkg/sessions/persistence/manager.go", "Manager.Clear"},
		{"pkg/middleware/stored_session.go", "storedSessionLoader.loadSession"}, {"pkg/middleware/stored_session.go", "storedSessionLoader.getValidatedSession"},
		{"pkg/middleware/stored_session.go", "storedSessionLoader.refreshSessionIfNeeded"}, {"pkg/middleware/stored_session.go", "storedSessionLoader.refreshSession"},
		{"pkg/middleware/stored_session.go", "storedSessionLoader.validateSession"},
		{"pkg/sessions/cookie/session_store.go", "SessionStore.Save"}, {"pkg/sessions/cookie/session_store.go", "SessionStore.Load"}, {"pkg/sessions/cookie/session_store.go", "SessionStore.Clear"},
		{"pkg/sessions/cookie/session_store.go", "SessionStore.setSessionCookie"},
		{"pkg/sessions/cookie/session_store.go", "SessionStore.clearCookiesExcept"}, {"pkg/sessions/cookie/session_store.go", "isSessionCookieName"},
		{"pkg/sessions/cookie/session_store.go", "loadCookie"}, {"pkg/sessions/cookie/session_store.go", "SessionStore.makeSessionCookie"},
		{"pkg/cookies/cookies.go", "MakeCookieFromOptions"}, {"pkg/cookies/cookies.go", "GetCookieDomain"},
		{"pkg/app/redirect/validator.go", "validator.IsValidRedirect"}, {"pkg/app/redirect/director.go", "appDirector.GetRedirect"},
		{"pkg/providers/oidc/verifier.go", "idTokenVerifier.Verify"},
		{"providers/oidc.go", "OIDCProvider.createSession"}, {"providers/oidc.go", "OIDCProvider.CreateSessionFromToken"}, {"providers/oidc.go", "OIDCProvider.ValidateSession"},
		{"providers/oidc.go", "OIDCProvider.RefreshSession"},
		{"pkg/apis/middleware/session.go", "CreateTokenToSessionFunc"},
		{"pkg/middleware/readynesscheck.go", "NewReadynessCheck"}, {"pkg/middleware/readynesscheck.go", "readynessCheck"},
		{"oauthproxy.go", "isAllowedMethod"}, {"oauthproxy.go", "isAllowedPath"}, {"oauthproxy.go", "OAuthProxy.isAllowedRoute"}, {"oauthproxy.go", "OAuthProxy.isTrustedIP"},
		{"pkg/requests/util/util.go", "GetRequestPath"}, {"pkg/requests/util/util.go", "GetRequestURI"}, {"pkg/requests/util/util.go", "GetRequestHost"}, {"pkg/requests/util/util.go", "GetRequestProto"},
		{"pkg/middleware/redirect_to_https.go", "redirectToHTTPS"},
		{"pkg/requests/builder.go", "builder.Do"}, {"pkg/requests/builder.go", "builder.do"},
		{"pkg/requests/result.go", "result.UnmarshalInto"}, {"pkg/requests/result.go", "result.UnmarshalSimpleJSON"}, {"pkg/requests/result.go", "result.getBodyForUnmarshal"},
		{"providers/provider_data.go", "ProviderData.buildSessionFromClaims"}, {"providers/provider_data.go", "ProviderData.checkNonce"}, {"providers/provider_data.go", "ProviderData.verifyIDToken"},
		{"providers/oidc.go", "OIDCProvider.redeemRefreshToken"}, {"providers/oidc.go", "OIDCProvider.Redeem"},
		{"pkg/providers/oidc/verifier.go", "idTokenVerifier.verifyAudience"}, {"pkg/providers/oidc/verifier.go", "idTokenVerifier.isValidAudience"},
		{"pkg/providers/util/claim_extractor.go", "claimExtractor.GetClaim"}, {"pkg/providers/util/claim_extractor.go", "claimExtractor.GetClaimInto"},
		{"pkg/middleware/jwt_session.go", "jwtSessionLoader.getJwtSession"}, {"pkg/middleware/jwt_session.go", "jwtSessionLoader.findTokenFromHeader"}, {"pkg/middleware/jwt_session.go", "jwtSessionLoader.getBasicToken"},
		{"pkg/middleware/basic_session.go", "getBasicSession"},
		{"pkg/middleware/headers.go", "stripHeaders"}, {"pkg/middleware/headers.go", "injectRequestHeaders"}, {"pkg/middleware/headers.go", "injectResponseHeaders"}, {"pkg/middleware/headers.go", "NewRequestHeaderInjector"}, {"pkg/middleware/headers.go", "flattenHeaders"},
		{"pkg/header/injector.go", "newClaimInjector"},
		{"oauthproxy.go", "extractAllowedEntities"}, {"oauthproxy.go", "checkAllowedEmailDomains"}, {"oauthproxy.go", "checkAllowedGroups"}, {"oauthproxy.go", "checkAllowedEmails"}, {"oauthproxy.go", "authOnlyAuthorize"},
		{"validator.go", "isEmailValidWithDomains"}, {"validator.go", "newValidatorImpl"},
		{"pkg/cookies/csrf.go", "NewCSRF"}, {"pkg/cookies/csrf.go", "LoadCSRFCookie"}, {"pkg/cookies/csrf.go", "decodeCSRFCookie"}, {"pkg/cookies/csrf.go", "csrf.cookieName"}, {"pkg/cookies/csrf.go", "ExtractStateSubstring"}, {"pkg/cookies/csrf.go", "csrf.SetCookie"}, {"pkg/cookies/csrf.go", "csrf.ClearCookie"},
		{"pkg/encryption/utils.go", "Validate"}, {"pkg/encryption/utils.go", "SignedValue"}, {"pkg/encryption/utils.go", "cookieSignature"}, {"pkg/encryption/utils.go", "checkHmac"}, {"pkg/encryption/nonce.go", "CheckNonce"}, {"pkg/encryption/nonce.go", "HashNonce"},
		{"pkg/sessions/persistence/ticket.go", "newTicket"}, {"pkg/sessions/persistence/ticket.go", "decodeTicketFromRequest"}, {"pkg/sessions/persistence/ticket.go", "ticket.saveSession"}, {"pkg/sessions/persistence/ticket.go", "ticket.loadSession"},
		{"pkg/sessions/redis/lock.go", "Lock.Obtain"}, {"pkg/sessions/redis/lock.go", "Lock.Release"},
		{"pkg/upstream/proxy.go", "NewProxy"}, {"pkg/upstream/proxy.go", "sortByPathLongest"}, {"pkg/upstream/proxy.go", "multiUpstreamProxy.registerSimpleHandler"}, {"pkg/upstream/rewrite.go", "rewritePath"}, {"pkg/upstream/rewrite.go", "splitPathAndQuery"}, {"pkg/upstream/http.go", "setProxyDirector"},
		{"pkg/ip/net_set.go", "NetSet.Has"}, {"pkg/ip/net_set.go", "NetSet.AddIPNet"}, {"pkg/ip/net_set.go", "NetSet.getNetMaps"}, {"pkg/ip/net_set.go", "ipNetMap.has"}, {"pkg/ip/parse_ip_net.go", "ParseIPNet"}, {"pkg/ip/realclientip.go", "xForwardedForClientIPParser.GetRealClientIP"}, {"pkg/ip/realclientip.go", "GetClientIP"},
		{"pkg/authentication/basic/htpasswd.go", "htpasswdMap.loadHTPasswdFile"}, {"pkg/authentication/basic/htpasswd.go", "htpasswdMap.Validate"},
		{"validator.go", "UserMap.IsValid"}, {"validator.go", "UserMap.LoadAuthenticatedEmailsFile"},
	} {
		fd := funcs(parse(s.rel))[s.fn]
		id := strings.NewReplacer(".", "_").Replace(s.fn)
		emit("def skel_%s : List String := %s\n", id, lstrsNL(skeleton(fd, keep)))
	}

	// ------------------------------------------------------------------ F3b provider variants
	// Every provider type may override the session-lifecycle methods of the generic provider the model covers.
	// One fact per property group: the control-flow skeleton (conditions, returns, and the lifecycle / verification
	// calls) of EVERY such override in providers/*.go, so that a change to any provider's path is seen.
	{
		pk := map[string]bool{}
		for k := range keep {
			pk[k] = true
		}
		for _, k := range strings.Fields(`extractRoles getAccessClaims getTenantFromToken checkTenantMatchesTenantList checkGroupOverage addGraphGroupsToSession
			redeemRefreshToken validateToken makeOIDCHeader makeAuthorizationHeader getEmail getUser getOrgAndTeam hasOrgAndTeamAccess hasRepoAccess hasUser
			getUserInfo getProjectInfo setProjectGroups populateSessionFromToken userInGroup fetchGroupMembership getAdminService setAllowedGroups
			fetchPrivateKeyJWT redeemFederatedToken action WaitForReplacement filterEvent Add Remove Stat Sleep NewWatcher Clean UnmarshalInto UnmarshalSimpleJSON Do WithContext SetHeader WithMethod WithBody Errorf Error New`) {
			pk[k] = true
		}
		groups := map[string][]string{
			"providerValidate": {"ValidateSession"},
			"providerRefresh":  {"RefreshSession", "redeemRefreshToken"},
			"providerRedeem":   {"Redeem", "EnrichSession", "CreateSessionFromToken"},
			"providerLogin":    {"GetLoginURL", "Authorize"},
		}
		files, _ := filepath.Glob(filepath.Join(repo, "providers", "*.go"))
		sort.Strings(files)
		gnames := make([]string, 0, len(groups))
		for g := range groups {
			gnames = append(gnames, g)
		}
		sort.Strings(gnames)
		for _, g := range gnames {
			var lines []string
			for _, f := range files {
				if strings.HasSuffix(f, "_test.go") {
					continue
				}
				rel, _ := filepath.Rel(repo, f)
				fs := funcs(parse(rel))
				var names []string
				for n := range fs {
					names = append(names, n)
				}
				sort.Strings(names)
				for _, n := range names {
					i := strings.LastIndex(n, ".")
					if i < 0 {
						continue
					}
					for _, m := range groups[g] {
						if n[i+1:] == m {
							lines = append(lines, "## "+rel+" "+n)
							lines = append(lines, skeleton(fs[n], pk)...)
						}
					}
				}
			}
			emit("def %s : List String := %s\n", g, lstrsNL(lines))
		}
		// closure: every function in providers/*.go REACHABLE (by callee name) from a session-lifecycle method of any provider
		// — the helpers behind Redeem / EnrichSession / RefreshSession / ValidateSession / CreateSessionFromToken / Authorize
		{
			type fn struct {
				rel, name string
				fd        *ast.FuncDecl
			}
			bySimple := map[string][]fn{}
			var all []fn
			for _, f := range files {
				if strings.HasSuffix(f, "_test.go") {
					continue
				}
				rel, _ := filepath.Rel(repo, f)
				for n, fd := range funcs(parse(rel)) {
					x := fn{rel, n, fd}
					all = append(all, x)
					simple := n
					if i := strings.LastIndex(n, "."); i >= 0 {
						simple = n[i+1:]
					}
					bySimple[simple] = append(bySimple[simple], x)
				}
			}
			seen := map[string]bool{}
			var queue []fn
			push := func(x fn) {
				k := x.rel + " " + x.name
				if !seen[k] {
					seen[k] = true
					queue = append(queue, x)
				}
			}
			for _, g := range gnames {
				for _, m := range groups[g] {
					for _, x := range bySimple[m] {
						push(x)
					}
				}
			}
			// ... and from the remaining method of the Provider interface the proxy calls while a session is built (the e-mail
			// lookup of providers whose token carries none) and from every provider's constructor (restrictions wired as closures:
			// Google groups, GitHub orgs / teams, Bitbucket teams / repositories are reached through fields, not by name)
			for _, x := range bySimple["GetEmailAddress"] {
				push(x)
			}
			for _, x := range all {
				simple := x.name
				if i := strings.LastIndex(simple, "."); i >= 0 {
					simple = simple[i+1:]
				}
				if strings.HasPrefix(simple, "New") && strings.HasSuffix(simple, "Provider") {
					push(x)
				}
			}
			for len(queue) > 0 {
				x := queue[0]
				queue = queue[1:]
				if x.fd == nil || x.fd.Body == nil {
					continue
				}
				ast.Inspect(x.fd.Body, func(n ast.Node) bool {
					if c, ok := n.(*ast.CallExpr); ok {
						name := calleeName(c)
						if i := strings.LastIndex(name, "."); i >= 0 {
							name = name[i+1:]
						}
						for _, y := range bySimple[name] {
							push(y)
						}
					}
					return true
				})
			}
			var keys []string
			for k := range seen {
				keys = append(keys, k)
			}
			sort.Strings(keys)
			allKeep := map[string]bool{}
			perFile := map[string][]string{}
			for _, k := range keys {
				parts := strings.SplitN(k, " ", 2)
				fd := funcs(parse(parts[0]))[parts[1]]
				perFile[parts[0]] = append(perFile[parts[0]], "## "+parts[1])
				// providers other than generic OIDC are outside the model: the whole body of every function their session lifecycle
				// reaches is pinned (a digest of the printed syntax tree, comments left out), so that ANY change there is reported
				perFile[parts[0]] = append(perFile[parts[0]], "#body sha256:"+bodyDigest(fd))
				// conditions and returns only (calls are named by the conditions / returns that use them)
				perFile[parts[0]] = append(perFile[parts[0]], skeleton(fd, allKeep)...)
			}
			var fnames []string
			for f := range perFile {
				fnames = append(fnames, f)
			}
			sort.Strings(fnames)
			for _, f := range fnames {
				id := strings.NewReplacer("/", "_", ".", "_", "-", "_").Replace(strings.TrimSuffix(strings.TrimPrefix(f, "providers/"), ".go"))
				emit("def providerReach_%s : List String := %s\n", id, lstrsNL(perFile[f]))
			}
			emit("def providerReachFiles : List String := %s\n", lstrsNL(fnames))
		}
		// the Redis client wrappers (standalone / sentinel and cluster)
		for _, n := range []string{"client.Get", "client.Set", "client.Del", "client.Ping", "clusterClient.Get", "clusterClient.Set", "clusterClient.Del", "clusterClient.Ping"} {
			fd := funcs(parse("pkg/sessions/redis/client.go"))[n]
			rk := map[string]bool{"Get": true, "Set": true, "Del": true, "Ping": true, "Result": true, "Err": true, "Bytes": true}
			emit("def skel_%s : List String := %s\n", strings.NewReplacer(".", "_").Replace(n), lstrsNL(skeleton(fd, rk)))
		}
		// PKCE / provider-data wiring
		for _, s := range []sk{{"pkg/watcher/watcher.go", "WatchFileForUpdates"}, {"pkg/watcher/watcher.go", "filterEvent"}, {"pkg/watcher/watcher.go", "WaitForReplacement"}, {"oauthproxy.go", "NewOAuthProxy"}, {"providers/internal_util.go", "validateToken"}, {"providers/provider_default.go", "ProviderData.Redeem"}, {"providers/providers.go", "newProviderDataFromConfig"}, {"providers/providers.go", "parseCodeChallengeMethod"}, {"providers/provider_data.go", "ProviderData.LoginURLParams"},
			{"providers/provider_default.go", "ProviderData.GetLoginURL"}, {"providers/oidc.go", "OIDCProvider.GetLoginURL"}, {"oauthproxy.go", "decodeState"}, {"oauthproxy.go", "encodeState"},
			{"pkg/providers/oidc/provider_verifier.go", "ProviderVerifierOptions.toOIDCConfig"}, {"pkg/providers/oidc/provider_verifier.go", "ProviderVerifierOptions.toVerificationOptions"}, {"pkg/providers/oidc/provider_verifier.go", "NewProviderVerifier"},
			{"pkg/util/util.go", "IsEndpointAllowed"}, {"pkg/util/util.go", "isHostnameAllowed"}, {"pkg/app/redirect/director.go", "appDirector.hasProxyPrefix"}, {"pkg/app/redirect/director.go", "appDirector.validateRedirect"}} {
			fd := funcs(parse(s.rel))[s.fn]
			id := strings.NewReplacer(".", "_").Replace(s.fn)
			emit("def skel_%s : List String := %s\n", id, lstrsNL(skeleton(fd, pk)))
		}
	}

	// ------------------------------------------------------------------ F4 forwarding-header readers
	fwd := map[string]bool{"X-Forwarded-Host": true, "X-Forwarded-Proto": true, "X-Forwarded-Uri": true, "X-Forwarded-For": true,
		"X-Real-IP": true, "X-Real-Ip": true, "X-ProxyUser-IP": true, "X-Envoy-External-Address": true, "CF-Connecting-IP": true,
		"XForwardedProto": true, "XForwardedHost": true, "XForwardedURI": true, "p.header": true}
	var readers []string
	walkGo(func(rel string, f *ast.File) {
		for name, fd := range funcs(f) {
			if fd.Body == nil {
				continue
			}
			ast.Inspect(fd.Body, func(n ast.Node) bool {
				c, ok := n.(*ast.CallExpr)
				if !ok || len(c.Args) != 1 {
					return true
				}
				cn := calleeName(c)
				if !(strings.HasSuffix(cn, "Header.Get") || strings.HasSuffix(cn, "Header.Values") || strings.HasSuffix(cn, "h.Get") || strings.HasSuffix(cn, "Header.Del") || strings.HasSuffix(cn, "Header.Set")) {
					return true
				}
				arg := src(c.Args[0])
				if s, ok := strLit(c.Args[0]); ok {
					arg = s
				}
				base := arg
				if i := strings.LastIndex(arg, "."); i >= 0 && !strings.Contains(arg, "-") {
					base = arg[i+1:]
				}
				if fwd[arg] || fwd[base] {
					readers = append(readers, rel+":"+name+":"+cn+"("+arg+")")
				}
				return true
			})
		}
	})
	sort.Strings(readers)
	emit("\ndef fwdHeaderSites : List String := %s\n", lstrsNL(readers))
	// where the real-client-IP parser is configured
	var parserCfg []string
	{
		fd := funcs(parse("pkg/validation/options.go"))["Validate"]
		if fd != nil {
			ast.Inspect(fd.Body, func(n ast.Node) bool {
				if is, ok := n.(*ast.IfStmt); ok {
					cond := src(is.Cond)
					ast.Inspect(is.Body, func(m ast.Node) bool {
						if c, ok := m.(*ast.CallExpr); ok && strings.HasSuffix(calleeName(c), "SetRealClientIPParser") {
							parserCfg = append(parserCfg, "if "+cond+" { "+calleeName(c)+" }")
						}
						return true
					})
				}
				return true
			})
			ast.Inspect(fd.Body, func(n ast.Node) bool {
				if c, ok := n.(*ast.CallExpr); ok && strings.HasSuffix(calleeName(c), "SetRealClientIPParser") {
					parserCfg = append(parserCfg, "call")
				}
				return true
			})
		}
	}
	emit("def realIPParserConfig : List String := %s\n", lstrs(parserCfg))

	// ------------------------------------------------------------------ F5 cookie construction sites
	var cookieLits, setCookies []string
	walkGo(func(rel string, f *ast.File) {
		for name, fd := range funcs(f) {
			if fd.Body == nil {
				continue
			}
			ast.Inspect(fd.Body, func(n ast.Node) bool {
				switch v := n.(type) {
				case *ast.CompositeLit:
					if t := src(v.Type); t == "http.Cookie" {
						cookieLits = append(cookieLits, rel+":"+name)
					}
				case *ast.CallExpr:
					if calleeName(v) == "http.SetCookie" && len(v.Args) == 2 {
						arg := src(v.Args[1])
						if c, ok := v.Args[1].(*ast.CallExpr); ok {
							arg = calleeName(c)
						}
						setCookies = append(setCookies, rel+":"+name+":"+arg)
					}
					if strings.HasSuffix(calleeName(v), "Header().Add") || strings.HasSuffix(calleeName(v), "Header().Set") {
						if len(v.Args) > 0 {
							if s, ok := strLit(v.Args[0]); ok && strings.EqualFold(s, "Set-Cookie") {
								setCookies = append(setCookies, rel+":"+name+":RAW-HEADER")
							}
						}
					}
				}
				return true
			})
		}
	})
	sort.Strings(cookieLits)
	sort.Strings(setCookies)
	emit("\ndef cookieLiteralSites : List String := %s\n", lstrsNL(cookieLits))
	emit("def setCookieSites : List String := %s\n", lstrsNL(setCookies))

	// ------------------------------------------------------------------ F6 panic-site inventory
	emit("\n/-- per function of the request-path files: index exprs, slice exprs, unchecked type assertions, explicit panics, MustCompile on non-literals, derefs of pointer-typed time fields -/\n")
	var inv []string
	for _, rel := range []string{
		"pkg/apis/sessions/session_state.go", "pkg/header/injector.go", "pkg/encryption/cipher.go", "pkg/encryption/utils.go", "pkg/encryption/nonce.go",
		"pkg/cookies/csrf.go", "pkg/cookies/cookies.go", "pkg/middleware/jwt_session.go", "pkg/middleware/session_utils.go", "pkg/middleware/basic_session.go",
		"pkg/middleware/stored_session.go", "pkg/middleware/headers.go", "pkg/ip/net_set.go", "pkg/ip/realclientip.go", "pkg/sessions/cookie/session_store.go",
		"pkg/sessions/persistence/ticket.go", "pkg/sessions/persistence/manager.go", "pkg/providers/oidc/verifier.go", "pkg/providers/util/claim_extractor.go",
		"pkg/app/redirect/validator.go", "pkg/app/redirect/director.go", "pkg/app/redirect/getters.go", "pkg/util/util.go", "pkg/requests/util/util.go",
		"pkg/upstream/rewrite.go", "pkg/upstream/proxy.go", "pkg/upstream/http.go", "pkg/authentication/basic/htpasswd.go", "validator.go", "oauthproxy.go",
		"pkg/apis/middleware/session.go", "providers/oidc.go", "providers/provider_data.go", "providers/provider_default.go",
	} {
		f := parse(rel)
		fm := funcs(f)
		names := make([]string, 0, len(fm))
		for n := range fm {
			names = append(names, n)
		}
		sort.Strings(names)
		for _, name := range names {
			fd := fm[name]
			if fd.Body == nil {
				continue
			}
			var idx, slc, asrt, pan, mc, tder int
			commaOK := map[ast.Node]bool{}
			ast.Inspect(fd.Body, func(n ast.Node) bool {
				switch v := n.(type) {
				case *ast.AssignStmt:
					if len(v.Lhs) == 2 && len(v.Rhs) == 1 {
						commaOK[v.Rhs[0]] = true
					}
				case *ast.ValueSpec:
					if len(v.Names) == 2 && len(v.Values) == 1 {
						commaOK[v.Values[0]] = true
					}
				case *ast.TypeSwitchStmt:
					ast.Inspect(v.Assign, func(m ast.Node) bool {
						if ta, ok := m.(*ast.TypeAssertExpr); ok {
							commaOK[ta] = true
						}
						return true
					})
				}
				return true
			})
			ast.Inspect(fd.Body, func(n ast.Node) bool {
				switch v := n.(type) {
				case *ast.IndexExpr:
					idx++
				case *ast.SliceExpr:
					slc++
				case *ast.TypeAssertExpr:
					if !commaOK[v] && v.Type != nil {
						asrt++
					}
				case *ast.CallExpr:
					cn := calleeName(v)
					if cn == "panic" {
						pan++
					}
					if strings.HasSuffix(cn, "MustCompile") && len(v.Args) == 1 {
						if _, ok := v.Args[0].(*ast.BasicLit); !ok {
							if _, ok := v.Args[0].(*ast.Ident); !ok {
								mc++
							}
						}
					}
					if cn == "s.CreatedAt.String" || cn == "s.ExpiresOn.String" {
						tder++
					}
				}
				return true
			})
			if idx+slc+asrt+pan+mc+tder > 0 {
				inv = append(inv, fmt.Sprintf("%s:%s idx=%d slice=%d assert=%d panic=%d mustcompile=%d timederef=%d", rel, name, idx, slc, asrt, pan, mc, tder))
			}
		}
	}
	emit("def panicSites : List String := %s\n", lstrsNL(inv))
	// guards that the per-site lemmas rely on, as source text of the enclosing if-conditions
	emit("def gcmDecrypt_guards : List String := %s\n", lstrs(ifConds("pkg/encryption/cipher.go", "gcmCipher.Decrypt")))
	emit("def cfbDecrypt_guards : List String := %s\n", lstrs(ifConds("pkg/encryption/cipher.go", "cfbCipher.Decrypt")))
	emit("def getClaim_guards : List String := %s\n", lstrs(ifConds("pkg/apis/sessions/session_state.go", "SessionState.GetClaim")))
	emit("def validate_guards : List String := %s\n", lstrs(ifConds("pkg/encryption/utils.go", "Validate")))
	emit("def extractState_guards : List String := %s\n", lstrs(ifConds("pkg/cookies/csrf.go", "ExtractStateSubstring")))
	emit("def clearRegex_args : List String := %s\n", lstrs(callArgs("pkg/sessions/cookie/session_store.go", "SessionStore.clearCookiesExcept", "regexp.MustCompile")))

	// ------------------------------------------------------------------ F7 lock discipline
	emit("\n/-- `func|var|read/write|none/R/W|plain/atomic/private` for every access to the shared snapshot cell\n    (`users`, `m`) and to the contents of the map it points to (`users[]`, `m[]`). `private` = the\n    access goes through a map that this function (or its only callers) freshly allocated and has\n    not yet published; see sharedScan in /verif/extract/main.go for the rule. -/\n")
	var acc []string
	acc = append(acc, sharedScan("pkg/authentication/basic/htpasswd.go", "htpasswdMap", "users", "rwm", "")...)
	acc = append(acc, sharedScan("validator.go", "UserMap", "m", "", "um")...)
	emit("def sharedAccesses : List String := %s\n", lstrsNL(acc))

	// ------------------------------------------------------------------ F9 configuration path
	// What "is configured" means: every flag definition (kind, name, default), every option struct tag (flag and
	// config-file name), the defaults of the structured options, and the text of the conversion / loading functions
	// between what a user writes and `options.Options`.
	{
		type fdef struct{ name, line string }
		var defs []fdef
		var tags []string
		for _, rel := range []string{"pkg/apis/options/options.go", "pkg/apis/options/cookie.go", "pkg/apis/options/sessions.go", "pkg/apis/options/logging.go",
			"pkg/apis/options/legacy_options.go", "pkg/apis/options/app.go", "pkg/apis/options/providers.go", "pkg/apis/options/upstreams.go", "pkg/apis/options/header.go"} {
			if _, err := os.Stat(filepath.Join(repo, rel)); err != nil {
				continue
			}
			f := parse(rel)
			ast.Inspect(f, func(n ast.Node) bool {
				switch v := n.(type) {
				case *ast.CallExpr:
					name := calleeName(v)
					if strings.HasPrefix(name, "flagSet.") && len(v.Args) >= 2 {
						if fl, ok := strLit(v.Args[0]); ok {
							defs = append(defs, fdef{fl, strings.TrimPrefix(name, "flagSet.") + " " + fl + " = " + src(v.Args[1])})
						}
					}
				case *ast.TypeSpec:
					if st, ok := v.Type.(*ast.StructType); ok {
						for _, fld := range st.Fields.List {
							if fld.Tag == nil {
								continue
							}
							tag, _ := strconv.Unquote(fld.Tag.Value)
							fl, cf := reflect.StructTag(tag).Get("flag"), reflect.StructTag(tag).Get("cfg")
							if fl == "" {
								continue
							}
							for _, nm := range fld.Names {
								tags = append(tags, fl+" "+cf+" "+v.Name.Name+"."+nm.Name+" "+src(fld.Type))
							}
						}
					}
				}
				return true
			})
		}
		sort.Slice(defs, func(i, j int) bool { return defs[i].name < defs[j].name })
		sort.Strings(tags)
		groups := []struct {
			id   string
			pick func(string) bool
		}{
			{"cookie", func(n string) bool { return strings.HasPrefix(n, "cookie-") }},
			{"bypass", func(n string) bool {
				return strings.HasPrefix(n, "skip-auth-") || n == "trusted-ip" || n == "api-route" || n == "reverse-proxy" || n == "real-client-ip-header" || n == "force-https"
			}},
			{"redirect", func(n string) bool {
				return n == "whitelist-domain" || n == "redirect-url" || n == "relative-redirect-url" || n == "encode-state" || n == "skip-provider-button" || n == "proxy-prefix"
			}},
			{"authz", func(n string) bool {
				return n == "email-domain" || n == "authenticated-emails-file" || strings.HasPrefix(n, "htpasswd-") || n == "allowed-group" || n == "allowed-role"
			}},
			{"headers", func(n string) bool {
				return strings.HasPrefix(n, "pass-") && n != "pass-host-header" || strings.HasPrefix(n, "set-") || n == "prefer-email-to-user" || n == "basic-auth-password" || n == "skip-auth-strip-headers"
			}},
			{"upstream", func(n string) bool {
				return n == "upstream" || n == "pass-host-header" || n == "proxy-websockets" || n == "flush-interval" || n == "upstream-timeout" || n == "ssl-upstream-insecure-skip-verify"
			}},
			{"tokens", func(n string) bool {
				return strings.HasPrefix(n, "oidc-") || strings.HasPrefix(n, "insecure-oidc-") || n == "skip-oidc-discovery" || n == "user-id-claim" || n == "skip-jwt-bearer-tokens" ||
					n == "extra-jwt-issuers" || n == "skip-claims-from-profile-url" || n == "client-id" || n == "provider" || strings.HasSuffix(n, "code-challenge-method") ||
					n == "login-url" || n == "redeem-url" || n == "profile-url" || n == "validate-url" || n == "backend-logout-url" || n == "scope" || n == "prompt" || n == "approval-prompt"
			}},
			{"session", func(n string) bool { return strings.HasPrefix(n, "session-") || strings.HasPrefix(n, "redis-") }},
		}
		emit("\n/-- flag definitions `Kind name = default` (source text of the default), grouped by what they configure -/\n")
		for _, g := range groups {
			var xs []string
			for _, d := range defs {
				if g.pick(d.name) {
					xs = append(xs, d.line)
				}
			}
			emit("def flags_%s : List String := %s\n", g.id, lstrsNL(xs))
			var ts []string
			for _, t := range tags {
				if g.pick(strings.SplitN(t, " ", 2)[0]) {
					ts = append(ts, t)
				}
			}
			emit("def optionTags_%s : List String := %s\n", g.id, lstrsNL(ts))
		}
		// full (comment-free, gofmt-normalised) text of the functions on the configuration path
		text := func(rel, fn string) []string {
			fd := funcs(parse(rel))[fn]
			if fd == nil || fd.Body == nil {
				return []string{"<missing " + fn + ">"}
			}
			var ls []string
			for _, l := range strings.Split(src(fd.Body), "\n") {
				if t := strings.TrimSpace(l); t != "" {
					ls = append(ls, t)
				}
			}
			return ls
		}
		for _, g := range []struct {
			id  string
			fns [][2]string
		}{
			{"loader", [][2]string{{"main.go", "loadConfiguration"}, {"main.go", "loadLegacyOptions"}, {"main.go", "loadAlphaOptions"}, {"main.go", "loadOptions"},
				{"pkg/apis/options/load.go", "Load"}, {"pkg/apis/options/load.go", "registerFlags"}, {"pkg/apis/options/load.go", "LoadYAML"}, {"pkg/apis/options/load.go", "loadAndParseYaml"},
				{"pkg/apis/options/alpha_options.go", "AlphaOptions.MergeInto"}, {"pkg/apis/options/legacy_options.go", "LegacyOptions.ToOptions"},
				{"pkg/apis/options/legacy_options.go", "NewLegacyOptions"}, {"pkg/apis/options/options.go", "NewOptions"}}},
			{"cookieDefaults", [][2]string{{"pkg/apis/options/cookie.go", "cookieDefaults"}, {"pkg/apis/options/sessions.go", "sessionOptionsDefaults"}}},
			{"legacyProvider", [][2]string{{"pkg/apis/options/legacy_options.go", "LegacyProvider.convert"}, {"pkg/apis/options/providers.go", "providerDefaults"}}},
			{"legacyHeaders", [][2]string{{"pkg/apis/options/legacy_options.go", "LegacyHeaders.convert"}, {"pkg/apis/options/legacy_options.go", "LegacyHeaders.getRequestHeaders"},
				{"pkg/apis/options/legacy_options.go", "LegacyHeaders.getResponseHeaders"}, {"pkg/apis/options/legacy_options.go", "getBasicAuthHeader"},
				{"pkg/apis/options/legacy_options.go", "getPassUserHeaders"}, {"pkg/apis/options/legacy_options.go", "getPassAccessTokenHeader"},
				{"pkg/apis/options/legacy_options.go", "getAuthorizationHeader"}, {"pkg/apis/options/legacy_options.go", "getPreferredUsernameHeader"},
				{"pkg/apis/options/legacy_options.go", "getXAuthRequestHeaders"}, {"pkg/apis/options/legacy_options.go", "getXAuthRequestAccessTokenHeader"}}},
			{"legacyUpstreams", [][2]string{{"pkg/apis/options/legacy_options.go", "LegacyUpstreams.convert"}}},
		} {
			var ls []string
			for _, fn := range g.fns {
				ls = append(ls, "func "+fn[1]+" {")
				ls = append(ls, text(fn[0], fn[1])...)
			}
			emit("def cfgText_%s : List String := %s\n", g.id, lstrsNL(ls))
		}
	}

	emit("\nend O2P.Facts\n")
	if err := os.WriteFile(os.Args[2], out.Bytes(), 0o644); err != nil {
		fmt.Fprintln(os.Stderr, err)
		os.Exit(1)
	}
}

// sharedScan extracts the lock discipline of one shared snapshot cell: the field `field` of
// struct type `typ` in file `rel`.
//
//   - Every function of the file is scanned (methods AND plain functions).
//   - "Holders" are the identifiers through which an object of type `typ` is reached in a
//     function: the receiver, parameters of type *typ, and locals assigned from `&typ{…}` or
//     from a call to a function of the file that returns such a fresh object.
//   - For the pointer cell itself: `x.field = …` is a write, every other `x.field` a read; an
//     access made by `atomic.LoadPointer(&x.field)` / `atomic.StorePointer(&x.field, …)` is an
//     atomic read / write. The lock mode is the state of `x.<lock>` (Lock → W, RLock → R,
//     Unlock/RUnlock → none) at that point in source order.
//   - For the CONTENTS of the map the cell points to (variable `field[]`): `m[k] = v` and
//     `delete(m, k)` are writes, `m[k]`, `range m` and `len(m)` reads, where `m` is `x.field`
//     or a local bound to the live map (`m := *(*map…)(atomic.LoadPointer(&x.field))`) or to a
//     fresh map (`m := make(map…)`).
//   - An access is `private` (not shared, exempt from the discipline) iff it goes through a
//     FRESH holder or fresh map — one that this very function allocated (`&typ{…}`,
//     `make(map…)`, or the result of a constructor function of the file), or a parameter of a
//     plain function whose every call site in the file passes such a fresh holder — AND it
//     occurs before the function publishes it (an assignment of it or of its `.field` into a
//     non-fresh holder, or an atomic.StorePointer of its address). Today that exempts exactly:
//     createHtpasswdMap (its own `h := &htpasswdMap{…}`), passShaOrBcrypt (only called by
//     createHtpasswdMap with that `h`), the read of `updated.users` in loadHTPasswdFile,
//     the literal in NewHTPasswdValidator, and the filling of `updated` in
//     LoadAuthenticatedEmailsFile before the StorePointer.
func sharedScan(rel, typ, field, lock, recvHint string) []string {
	f := parse(rel)
	fm := funcs(f)
	names := make([]string, 0, len(fm))
	for n := range fm {
		names = append(names, n)
	}
	sort.Strings(names)
	isTyp := func(e ast.Expr) bool {
		if st, ok := e.(*ast.StarExpr); ok {
			e = st.X
		}
		id, ok := e.(*ast.Ident)
		return ok && id.Name == typ
	}
	isFreshLit := func(e ast.Expr) bool {
		if u, ok := e.(*ast.UnaryExpr); ok && u.Op == token.AND {
			if cl, ok := u.X.(*ast.CompositeLit); ok {
				return isTyp(cl.Type)
			}
		}
		return false
	}
	// constructor functions: plain functions whose results include *typ and whose body
	// allocates the object with a composite literal
	constructors := map[string]bool{}
	for _, n := range names {
		fd := fm[n]
		if fd.Recv != nil || fd.Type.Results == nil || fd.Body == nil {
			continue
		}
		ret := false
		for _, r := range fd.Type.Results.List {
			if isTyp(r.Type) {
				ret = true
			}
		}
		lit := false
		ast.Inspect(fd.Body, func(n ast.Node) bool {
			if e, ok := n.(ast.Expr); ok && isFreshLit(e) {
				lit = true
			}
			return true
		})
		if ret && lit {
			constructors[fd.Name.Name] = true
		}
	}
	// fresh holders per function: ident → true
	freshIn := func(fd *ast.FuncDecl) map[string]bool {
		fresh := map[string]bool{}
		ast.Inspect(fd.Body, func(n ast.Node) bool {
			as, ok := n.(*ast.AssignStmt)
			if !ok {
				return true
			}
			for i, l := range as.Lhs {
				id, ok := l.(*ast.Ident)
				if !ok {
					continue
				}
				var r ast.Expr
				if len(as.Rhs) == len(as.Lhs) {
					r = as.Rhs[i]
				} else if len(as.Rhs) == 1 && i == 0 {
					r = as.Rhs[0]
				}
				if r == nil {
					continue
				}
				if isFreshLit(r) {
					fresh[id.Name] = true
				}
				if c, ok := r.(*ast.CallExpr); ok {
					if constructors[calleeName(c)] {
						fresh[id.Name] = true
					}
					if calleeName(c) == "make" && len(c.Args) >= 1 {
						if _, ok := c.Args[0].(*ast.MapType); ok {
							fresh["map:"+id.Name] = true
						}
					}
				}
			}
			return true
		})
		return fresh
	}
	// parameters of type *typ of plain functions that only ever receive fresh holders
	privateParam := map[string]map[string]bool{} // func → param → private
	for iter := 0; iter < 3; iter++ {
		for _, n := range names {
			fd := fm[n]
			if fd.Recv != nil || fd.Body == nil {
				continue
			}
			for pi, p := range flattenParams(fd) {
				if !isTyp(p.typ) {
					continue
				}
				sites, allFresh := 0, true
				for _, cn := range names {
					caller := fm[cn]
					if caller.Body == nil {
						continue
					}
					fr := freshIn(caller)
					ast.Inspect(caller.Body, func(x ast.Node) bool {
						c, ok := x.(*ast.CallExpr)
						if !ok || calleeName(c) != fd.Name.Name || pi >= len(c.Args) {
							return true
						}
						sites++
						id, ok := c.Args[pi].(*ast.Ident)
						if !ok || !(fr[id.Name] || privateParam[caller.Name.Name][id.Name]) {
							allFresh = false
						}
						return true
					})
				}
				if sites > 0 && allFresh {
					if privateParam[fd.Name.Name] == nil {
						privateParam[fd.Name.Name] = map[string]bool{}
					}
					privateParam[fd.Name.Name][p.name] = true
				}
			}
		}
	}
	var res []string
	seen := map[string]bool{}
	add := func(s string) {
		if !seen[s] {
			seen[s] = true
			res = append(res, s)
		}
	}
	for _, name := range names {
		fd := fm[name]
		if fd.Body == nil {
			continue
		}
		holders := map[string]bool{} // identifiers denoting an object of type typ
		if fd.Recv != nil && len(fd.Recv.List) == 1 && len(fd.Recv.List[0].Names) == 1 && isTyp(fd.Recv.List[0].Type) {
			holders[fd.Recv.List[0].Names[0].Name] = true
		}
		for _, p := range flattenParams(fd) {
			if isTyp(p.typ) {
				holders[p.name] = true
			}
		}
		if recvHint != "" {
			holders[recvHint] = true // closures and constructors use the conventional name
		}
		fresh := freshIn(fd)
		for id := range fresh {
			if !strings.HasPrefix(id, "map:") {
				holders[id] = true
			}
		}
		for id := range privateParam[fd.Name.Name] {
			fresh[id] = true
		}
		// publication points of fresh things: position after which they are shared
		published := map[string]token.Pos{}
		pub := func(id string, at token.Pos) {
			if p, ok := published[id]; !ok || at < p {
				published[id] = at
			}
		}
		mentions := func(e ast.Expr, id string) bool {
			found := false
			ast.Inspect(e, func(n ast.Node) bool {
				if x, ok := n.(*ast.Ident); ok && x.Name == id {
					found = true
				}
				return true
			})
			return found
		}
		ast.Inspect(fd.Body, func(n ast.Node) bool {
			switch v := n.(type) {
			case *ast.AssignStmt:
				for _, l := range v.Lhs {
					sel, ok := l.(*ast.SelectorExpr)
					if !ok {
						continue
					}
					base, ok := sel.X.(*ast.Ident)
					if !ok || fresh[base.Name] {
						continue
					}
					for _, r := range v.Rhs {
						for id := range fresh {
							if mentions(r, strings.TrimPrefix(id, "map:")) {
								pub(id, v.End())
							}
						}
					}
				}
			case *ast.CallExpr:
				if calleeName(v) == "atomic.StorePointer" && len(v.Args) == 2 {
					for id := range fresh {
						if mentions(v.Args[1], strings.TrimPrefix(id, "map:")) {
							pub(id, v.End())
						}
					}
				}
			case *ast.ReturnStmt:
				// returning a fresh object hands it to the caller, who is analysed on its own
			}
			return true
		})
		isPrivate := func(id string, at token.Pos) bool {
			if !fresh[id] {
				return false
			}
			p, ok := published[id]
			return !ok || at <= p
		}
		// live / fresh map locals (contents accesses)
		mapVar := map[string]string{} // ident → "live" | "fresh"
		ast.Inspect(fd.Body, func(n ast.Node) bool {
			as, ok := n.(*ast.AssignStmt)
			if !ok || len(as.Lhs) != len(as.Rhs) {
				return true
			}
			for i, l := range as.Lhs {
				id, ok := l.(*ast.Ident)
				if !ok {
					continue
				}
				if fresh["map:"+id.Name] {
					mapVar[id.Name] = "fresh"
				}
				if strings.Contains(src(as.Rhs[i]), "atomic.LoadPointer") && strings.Contains(src(as.Rhs[i]), "."+field) {
					mapVar[id.Name] = "live"
				}
			}
			return true
		})
		// classify syntactic positions
		lhs := map[ast.Node]bool{}
		atomicArg := map[ast.Node]string{}
		ast.Inspect(fd.Body, func(n ast.Node) bool {
			switch v := n.(type) {
			case *ast.AssignStmt:
				for _, l := range v.Lhs {
					lhs[l] = true
				}
			case *ast.IncDecStmt:
				lhs[v.X] = true
			case *ast.CallExpr:
				cn := calleeName(v)
				if (cn == "atomic.LoadPointer" || cn == "atomic.StorePointer") && len(v.Args) >= 1 {
					if u, ok := v.Args[0].(*ast.UnaryExpr); ok && u.Op == token.AND {
						if cn == "atomic.LoadPointer" {
							atomicArg[u.X] = "read"
						} else {
							atomicArg[u.X] = "write"
						}
					}
				}
			}
			return true
		})
		// is e the cell `x.field` of a holder x?  returns x
		cellOf := func(e ast.Expr) (string, bool) {
			sel, ok := e.(*ast.SelectorExpr)
			if !ok || sel.Sel.Name != field {
				return "", false
			}
			x, ok := sel.X.(*ast.Ident)
			if !ok || !holders[x.Name] {
				return "", false
			}
			return x.Name, true
		}
		mode := map[string]string{}
		modeOf := func(x string) string {
			if m, ok := mode[x]; ok {
				return m
			}
			return "none"
		}
		kindOf := func(holder string, at token.Pos) string {
			if isPrivate(holder, at) {
				return "private"
			}
			return "plain"
		}
		// contents access through expression m (either x.field or a map local)
		contents := func(m ast.Expr, rw string, at token.Pos) {
			if x, ok := cellOf(m); ok {
				add(fmt.Sprintf("%s|%s[]|%s|%s|%s", name, field, rw, modeOf(x), kindOf(x, at)))
				return
			}
			if id, ok := m.(*ast.Ident); ok {
				switch mapVar[id.Name] {
				case "live":
					add(fmt.Sprintf("%s|%s[]|%s|none|plain", name, field, rw))
				case "fresh":
					if _, everPublished := published["map:"+id.Name]; !everPublished {
						return // a scratch map that never becomes the shared snapshot
					}
					k := "plain"
					if isPrivate("map:"+id.Name, at) {
						k = "private"
					}
					add(fmt.Sprintf("%s|%s[]|%s|none|%s", name, field, rw, k))
				}
			}
		}
		ast.Inspect(fd.Body, func(n ast.Node) bool {
			switch v := n.(type) {
			case *ast.CallExpr:
				cn := calleeName(v)
				if lock != "" {
					for x := range holders {
						switch cn {
						case x + "." + lock + ".Lock":
							mode[x] = "W"
						case x + "." + lock + ".RLock":
							mode[x] = "R"
						case x + "." + lock + ".Unlock", x + "." + lock + ".RUnlock":
							mode[x] = "none"
						}
					}
				}
				if cn == "delete" && len(v.Args) == 2 {
					contents(v.Args[0], "write", v.Pos())
				}
				if cn == "len" && len(v.Args) == 1 {
					contents(v.Args[0], "read", v.Pos())
				}
			case *ast.RangeStmt:
				contents(v.X, "read", v.Pos())
			case *ast.IndexExpr:
				if lhs[v] {
					contents(v.X, "write", v.Pos())
				} else {
					contents(v.X, "read", v.Pos())
				}
			case *ast.SelectorExpr:
				if x, ok := cellOf(v); ok {
					if rw, ok := atomicArg[v]; ok {
						add(fmt.Sprintf("%s|%s|%s|%s|atomic", name, field, rw, modeOf(x)))
					} else {
						rw := "read"
						if lhs[v] {
							rw = "write"
						}
						add(fmt.Sprintf("%s|%s|%s|%s|%s", name, field, rw, modeOf(x), kindOf(x, v.Pos())))
					}
				}
			}
			return true
		})
	}
	return res
}

type paramInfo struct {
	name string
	typ  ast.Expr
}

func flattenParams(fd *ast.FuncDecl) []paramInfo {
	var out []paramInfo
	if fd.Type.Params == nil {
		return out
	}
	for _, p := range fd.Type.Params.List {
		if len(p.Names) == 0 {
			out = append(out, paramInfo{"_", p.Type})
		}
		for _, n := range p.Names {
			out = append(out, paramInfo{n.Name, p.Type})
		}
	}
	return out
}

func ifConds(rel, fn string) []string {
	fd := funcs(parse(rel))[fn]
	var res []string
	if fd == nil || fd.Body == nil {
		return []string{"<missing>"}
	}
	ast.Inspect(fd.Body, func(n ast.Node) bool {
		if is, ok := n.(*ast.IfStmt); ok {
			res = append(res, src(is.Cond))
		}
		return true
	})
	return res
}

func grepKeyValue(rel, key string) []string {
	f := parse(rel)
	var res []string
	ast.Inspect(f, func(n ast.Node) bool {
		if kv, ok := n.(*ast.KeyValueExpr); ok && src(kv.Key) == key {
			res = append(res, src(kv.Value))
		}
		return true
	})
	return res
}

func lstrsNL(xs []string) string {
	if len(xs) == 0 {
		return "[]"
	}
	q := make([]string, len(xs))
	for i, x := range xs {
		q[i] = "  " + lstr(x)
	}
	return "[\n" + strings.Join(q, ",\n") + "]"
}

// walkGo visits every non-test Go file of the repository's own packages
func walkGo(fn func(rel string, f *ast.File)) {
	var files []string
	filepath.Walk(repo, func(p string, info os.FileInfo, err error) error {
		if err != nil {
			return nil
		}
		if info.IsDir() {
			b := info.Name()
			if b == ".git" || b == "docs" || b == "contrib" || b == "testdata" || b == "vendor" || b == "zzverif" {
				return filepath.SkipDir
			}
			return nil
		}
		if strings.HasSuffix(p, ".go") && !strings.HasSuffix(p, "_test.go") && !strings.Contains(filepath.Base(p), "zz_verif") {
			files = append(files, p)
		}
		return nil
	})
	sort.Strings(files)
	for _, p := range files {
		rel, _ := filepath.Rel(repo, p)
		f, err := parser.ParseFile(fset, p, nil, 0)
		if err != nil {
			continue
		}
		fn(rel, f)
	}
}
